"""C07 driver: complete method-pair matrix (and random multi-thread programs) under ThreadSanitizer."""
import concurrent.futures as cf
import hashlib
import os
import re
import subprocess
import time

TSAN_ENV = {"TSAN_OPTIONS": "halt_on_error=0 exitcode=66 report_signal_unsafe=0 second_deadlock_stack=1 history_size=5"}
KINDS = ["lru", "mru", "fifo", "lfu", "lfuda", "rr", "tlru", "utlru", "ut_map", "ut_set"]


def methods_of(binp, kind):
    p = subprocess.run([binp, "list", "--kind", kind], capture_output=True, text=True)
    return [m for m in p.stdout.split() if m]


def race_summary(err):
    """innermost library frames of the first report: container::method file:line"""
    m = re.search(r"WARNING: ThreadSanitizer: data race.*?(?=\n==================|\Z)", err, re.S)
    if not m:
        m2 = re.search(r"WARNING: ThreadSanitizer: ([^\n]*)", err)
        return m2.group(0) if m2 else "ThreadSanitizer report"
    out = []
    for ln in m.group(0).split("\n"):
        fm = re.search(r"#\d+ (?:\w+ )*cappuccino::(\w+)<.*>::(\w+)\(.*?(\w+\.hpp):(\d+)", ln)
        if fm:
            s_ = "%s::%s %s:%s" % (fm.group(1), fm.group(2), fm.group(3), fm.group(4))
            if s_ not in out:
                out.append(s_)
    return "data race: " + " | ".join(out[:4]) if out else "data race (no library frame symbolised)"


def run_one(binp, args, timeout=120):
    env = dict(os.environ, **TSAN_ENV)
    try:
        p = subprocess.run([binp] + args, capture_output=True, text=True, env=env, timeout=timeout)
    except subprocess.TimeoutExpired:
        return {"rc": -9, "race": False, "out": "", "err": "timeout", "overlap": False, "hits": 0}
    m = re.search(r"DONE overlap=(\d) hits=(-?\d+)", p.stdout)
    return {"rc": p.returncode, "race": "ThreadSanitizer: data race" in p.stderr or p.returncode == 66, "out": p.stdout, "err": p.stderr[-12000:],
            "overlap": bool(m and m.group(1) == "1"), "hits": int(m.group(2)) if m else 0, "unsupported": "UNSUPPORTED" in p.stdout}


def replay_text(kind, mode, a, b, seed, iters, types, cap, threads=0, ops=0):
    return "# property C07 mode %s\nkind %s\nmode %s\na %s\nb %s\nseed %d\niters %d\ntypes %d\ncap %d\nthreads %d\nops %d\n" % (
        mode, kind, mode, a, b, seed, iters, types, cap, threads, ops)


def args_from_replay(text):
    h = {}
    for ln in text.split("\n"):
        ps = ln.split()
        if len(ps) == 2 and not ln.startswith("#"):
            h[ps[0]] = ps[1]
    if h.get("mode") == "prog":
        return ["prog", "--kind", h["kind"], "--types", h.get("types", "0"), "--cap", h.get("cap", "3"), "--threads", h.get("threads", "3"),
                "--ops", h.get("ops", "30"), "--seed", h.get("seed", "1")]
    return ["pair", "--kind", h["kind"], "--types", h.get("types", "0"), "--cap", h.get("cap", "3"), "--a", h["a"], "--b", h["b"],
            "--seed", h.get("seed", "1"), "--iters", h.get("iters", "30")]


def sched_phase(V, prop, tier, seed, cfg, repdir):
    """ThreadSanitizer under harness-owned schedules: the baton scheduler of the schedule engine picks the interleaving (its own
    synchronisation is hidden from TSan), so a race that needs a particular interleaving is both reached and seen."""
    import shutil
    tcfg = cfg[tier]
    n = tcfg.get("sched_cases", 0)
    info = {"programs": 0, "schedules_run": 0, "workers": V.NCPU, "flagged": 0}
    if not n:
        return info, [], []
    binp = V.build("schedtsan")
    work = os.path.join(V.BUILD_ROOT, "work", "C07-sched-%d" % os.getpid())
    shutil.rmtree(work, ignore_errors=True)
    os.makedirs(work)
    base = (seed * 4099 + 77) % (2 ** 31)

    def worker(w):
        env = dict(os.environ, TSAN_OPTIONS="halt_on_error=1 exitcode=66 report_signal_unsafe=0 history_size=5")
        env["RC_PARAMS"] = "seed=%d max_success=%d max_size=30" % (base + w * 7919, n)
        env["VERIF_SCHED_EXHAUST"] = str(tcfg.get("sched_exhaust", 30))
        env["VERIF_SCHED_MAXOPS"] = str(tcfg.get("sched_maxops", 2))
        try:
            p = subprocess.run([binp, "gen", "--property", prop, "--out", work, "--worker", str(w)], capture_output=True, text=True, env=env,
                               timeout=tcfg.get("timeout", 3000))
            return (w, p.returncode, p.stderr[-12000:])
        except subprocess.TimeoutExpired:
            return (w, -9, "timeout")

    with cf.ThreadPoolExecutor(V.NCPU) as ex:
        res = list(ex.map(worker, range(V.NCPU)))
    violations, notes, samples = [], [], []
    seen = set()
    for (w, rc, err) in res:
        st = V.parse_stats(os.path.join(work, "stats-w%d.txt" % w))
        if st:
            info["programs"] += st["generated"]
            info["schedules_run"] += st["labels"].get("schedules_run", 0)
            for sm in st["samples"][:1]:
                if len(samples) < 2:
                    samples.append(sm)
        cpath = os.path.join(work, "crash-w%d.case" % w)
        if rc not in (0, 1) and os.path.exists(cpath):
            summ = race_summary(err)
            # replay the dumped program under the dumped schedule
            env = dict(os.environ, TSAN_OPTIONS="halt_on_error=1 exitcode=66 report_signal_unsafe=0 history_size=5")
            hit = None
            for _ in range(3):
                p = subprocess.run([binp, "replay", "--property", prop, cpath], capture_output=True, text=True, env=env, timeout=600)
                if "ThreadSanitizer: data race" in p.stderr:
                    hit = race_summary(p.stderr)
                    break
            if hit:
                info["flagged"] += 1
                if hit in seen:
                    continue
                seen.add(hit)
                name = "C07-%s-sched-seed%d-w%d.case" % (tier, seed, w)
                path = os.path.join(repdir, name)
                with open(path, "w") as fh:
                    fh.write("# property C07 mode sched-tsan\n# " + hit + "\n" + open(cpath).read())
                violations.append((path, "under a harness-chosen schedule: " + hit))
            else:
                notes.append("scheduled-TSan worker %d stopped (%s) but its dumped program does not reproduce a report - not counted" % (w, summ))
        elif rc == -9:
            notes.append("scheduled-TSan worker %d hit the wall-clock budget: inconclusive for its share" % w)
        elif rc not in (0, 1):
            notes.append("scheduled-TSan worker %d exited with %s: %s" % (w, rc, err[-200:].replace("\n", " ")))
    shutil.rmtree(work, ignore_errors=True)
    return info, violations, (notes, samples)


def check(V, prop, tier, seed, cfg):
    t0 = time.time()
    binp = V.build("race")
    tcfg = cfg[tier]
    iters = tcfg["iters"]
    repdir = os.path.join(V.ROOT, "replays", prop)
    os.makedirs(repdir, exist_ok=True)
    base = (seed * 7919 + int(hashlib.sha256(prop.encode()).hexdigest()[:6], 16)) % (2 ** 31)

    jobs = []
    matrix = {}
    for kind in KINDS:
        ms = methods_of(binp, kind)
        matrix[kind] = len(ms) * (len(ms) + 1) // 2
        n = 0
        for i, a in enumerate(ms):
            for b in ms[i:]:
                for rep in range(tcfg.get("reps", 1)):
                    s = base + n * 13 + rep * 1009
                    cap = [1, 2, 3, 4][(n + rep) % 4]
                    types = rep % 4 if rep % 4 < 3 else n % 3  # 0: Tracked, 1: std::string keys/values, 2: BigTracked (> 256 bytes)
                    if rep % 4 == 3:
                        cap = 150  # a large population expiring at once, long ranges
                    jobs.append(("pair", kind, a, b, s, iters, types, cap, 0, 0))
                n += 1
    for i in range(tcfg.get("programs", 0)):
        kind = KINDS[i % len(KINDS)]
        jobs.append(("prog", kind, "-", "-", base + 50000 + i, 0, (i // len(KINDS)) % 3, 1 + (i % 4), 3 + (i % 2), tcfg.get("prog_ops", 30)))

    def run_job(j):
        mode, kind, a, b, s, it, types, cap, th, ops = j
        args = args_from_replay(replay_text(kind, mode, a, b, s, it, types, cap, th, ops))
        return (j, run_one(binp, args))

    with cf.ThreadPoolExecutor(V.NCPU) as ex:
        results = list(ex.map(run_job, jobs))

    violations, notes, samples = [], [], []
    evaluations = 0
    nontrivial = set()
    per_kind = {}
    flagged = {}
    timeouts = 0
    for (j, r) in results:
        mode, kind, a, b, s, it, types, cap, th, ops = j
        if r.get("unsupported"):
            continue
        evaluations += 1
        pk = per_kind.setdefault(kind, {"runs": 0, "overlapped": 0, "races": 0})
        pk["runs"] += 1
        if r["rc"] == -9:
            timeouts += 1
            continue
        if r["overlap"]:
            pk["overlapped"] += 1
            if r["hits"] > 0 or mode == "prog":
                nontrivial.add((mode, kind, a, b, s))
                if len(samples) < 5 and len(nontrivial) % 40 == 1:
                    samples.append({"container": kind, "thread_1_calls": a, "thread_2_calls": b, "calls_each": it, "seed": s, "capacity": cap} if mode == "pair"
                                   else {"container": kind, "threads": th, "ops_each": ops, "seed": s, "capacity": cap})
        if r["race"]:
            pk["races"] += 1
            key = (kind, a, b) if mode == "pair" else (kind, "prog", str(s))
            if key not in flagged:
                flagged[key] = (j, r)
        elif r["rc"] != 0:
            notes.append("%s %s/%s exited with %d: %s" % (kind, a, b, r["rc"], r["err"][-200:].replace("\n", " ")))

    known_lines = []
    for key, (j, r) in sorted(flagged.items()):
        mode, kind, a, b, s, it, types, cap, th, ops = j
        summ = race_summary(r["err"])
        name = "C07-%s-%s-%s-%s.case" % (tier, kind, a, b if mode == "pair" else str(s))
        path = os.path.join(repdir, name)
        with open(path, "w") as fh:
            fh.write(replay_text(kind, mode, a, b, s, it, types, cap, th, ops))
            fh.write("# " + summ + "\n")
        kf = match_known_pair(V, kind, a, b, summ)
        if kf:
            line = "KNOWN-FINDING: property=C07 %s [%s; %s %s x %s: %s]" % (kf["text"], kf["id"], kind, a, b, summ)
            if line not in known_lines:
                known_lines.append(line)
        else:
            violations.append((path, "%s: %s x %s: %s" % (kind, a, b, summ)))

    sinfo, sviol, (snotes, ssamples) = sched_phase(V, prop, tier, seed, cfg, repdir)
    violations += sviol
    notes = snotes + notes
    samples += ssamples
    evaluations += sinfo["programs"]

    wall = time.time() - t0
    agg = {"evaluations": evaluations, "generated": evaluations, "nontrivial": len(nontrivial), "hashes": nontrivial, "labels": {}, "cases_with": {},
           "foreign": {}, "kinds": {}, "crashes": 0, "timeouts": timeouts}
    extra = {"method_pairs_per_container": matrix, "pair_matrix_complete": True, "per_container": per_kind,
             "flagged_pairs": ["%s: %s x %s" % k for k in sorted(flagged)][:60],
             "scheduled_tsan": sinfo,
             "engine": "E4 race (clang -fsanitize=thread, hooks off), free-running threads", "mode": "pairwise matrix" + (" + random programs" if tcfg.get("programs") else "")}
    V.write_evidence(prop, tier, seed, cfg, agg, samples, [], violations, known_lines, notes[:10], 0, wall, None, extra=extra)
    for ln in known_lines:
        V.log(ln)
    for n in notes[:10]:
        V.log("NOTE: " + n)
    V.log("[%s %s] %d runs (%d method pairs over 10 containers, complete matrix; %d scheduled programs / %d schedules under TSan), %d overlapped with hits, %d flagged, %.1fs" % (
        prop, tier, evaluations, sum(matrix.values()), sinfo["programs"], sinfo["schedules_run"], len(nontrivial), len(flagged) + sinfo["flagged"], wall))
    if violations:
        for path, desc in violations[:8]:
            V.log("VIOLATION property=%s replay=%s" % (prop, path))
            V.log("  " + desc)
        if len(violations) > 8:
            V.log("  ... and %d more flagged pairs (see evidence)" % (len(violations) - 8))
        return 1
    return 0


def match_known_pair(V, kind, a, b, summ):
    for f in V.load_known():
        if f.get("status") != "known" or f.get("property") != "C07":
            continue
        sig = f.get("signature", {})
        if sig.get("container") and kind not in sig["container"]:
            continue
        if sig.get("methods") and not (a in sig["methods"] or b in sig["methods"]):
            continue
        if sig.get("frame") and sig["frame"] not in summ:
            continue
        return f
    return None


def replay(V, prop, path, cfg):
    if "mode sched-tsan" in open(path).read():
        binp = V.build("schedtsan")
        env = dict(os.environ, TSAN_OPTIONS="halt_on_error=1 exitcode=66 report_signal_unsafe=0 history_size=5")
        p = subprocess.run([binp, "replay", "--property", prop, path], capture_output=True, text=True, env=env, timeout=600)
        if "ThreadSanitizer: data race" in p.stderr:
            V.log(race_summary(p.stderr))
            V.log(p.stderr[:3000])
            return 1
        V.log("no report")
        return 0
    binp = V.build("race")
    args = args_from_replay(open(path).read())
    hit = False
    for i in range(3):
        r = run_one(binp, args)
        V.log("run %d: rc=%s %s" % (i, r["rc"], race_summary(r["err"]) if r["race"] else "no report"))
        if r["race"]:
            hit = True
            if i == 0:
                V.log(r["err"][:3000])
    return 1 if hit else 0
