"""Per-property configuration of the checks (which engine/mode/profile decides each property)."""

ALL = ["lru", "mru", "fifo", "lfu", "lfuda", "rr", "tlru", "utlru", "ut_map", "ut_set"]
TTLK = ["tlru", "utlru", "ut_map", "ut_set"]


def tiers(qc, qs, tc, ts, **kw):
    # thorough: `rep` blocks may repeat lookups 65535 / 65536 times (16-bit counters)
    d = {"quick": {"cases": qc, "max_size": qs}, "thorough": {"cases": tc, "max_size": ts, "env": {"VERIF_BIG_REPS": "1"}}}
    for k, v in kw.items():
        tier, key = k.split("_", 1)
        d[{"q": "quick", "t": "thorough"}[tier]][key] = v
    return d


GEN_RULE = ("cases = (container kind, thread_safe mode, key/value types, capacity, load factor, TTL/tick/ratio, RNG seed, operation list) "
            "drawn by a rapidcheck Gen<Case> (16 workers, seeds derived from VERIF_SEED); distinct = 64-bit hash of the canonical case text; ")

PROPS = {
    "C01": dict(mode="model", profile="general", **tiers(12000, 60, 60000, 120, t_fuzz_s=90),
                rule=GEN_RULE + "non-trivial = at least one slot recycle (a new key inserted after an erase or eviction) followed by at least one checked hit",
                needs=["slot_recycles", "checked_hits_after_recycle"]),
    "C02": dict(mode="model", profile="general", **tiers(12000, 60, 60000, 120, t_fuzz_s=90),
                rule=GEN_RULE + "non-trivial = the size() trajectory is non-monotone (a decrease by erase/evict/expiry/clear followed by an increase)",
                needs=["size_dec_then_inc", "steps_at_capacity"]),
    "C03": dict(mode="model", profile="general", **tiers(12000, 60, 60000, 120, t_fuzz_s=90),
                rule=GEN_RULE + "non-trivial = at least one insert of a new key at size()==capacity() and at least one insert into a slot freed by an erase on a previously full cache (ut_map/ut_set: any insert after a removal)",
                needs=["inserts_into_full", "inserts_into_free_slot_after_erase_on_full"]),
    "C04": dict(fuzz_kinds=[6, 7, 8, 9], mode="model", profile="ttl", **tiers(12000, 60, 60000, 120, t_fuzz_s=60),
                rule=GEN_RULE + "non-trivial = at least one lookup of a key whose entry has expired and has not been observably removed",
                needs=["zombie_probes", "zombie_probes_at_exact_deadline"]),
    "C05": dict(fuzz_kinds=[6, 7, 8, 9], mode="model", profile="ttl", **tiers(12000, 60, 60000, 120, t_fuzz_s=60),
                rule=GEN_RULE + "non-trivial = at least one hit within 1 ms before the deadline and at least one write that moved an existing deadline",
                needs=["hits_within_1ms_of_deadline", "writes_moving_a_deadline"]),
    "C06": dict(mode="sched", profile="all", engine_bin="sched",
                quick={"cases": 400, "max_size": 30, "env": {"VERIF_SCHED_EXHAUST": "60", "VERIF_SCHED_MAXOPS": "2"}},
                thorough={"cases": 600, "max_size": 40, "env": {"VERIF_SCHED_EXHAUST": "3000", "VERIF_SCHED_MAXOPS": "3"}, "timeout": 7000},
                engine="E3 sched (g++ ASan+UBSan, -DCAPPUCCINO_VERIF_HOOKS), baton scheduler + sequential re-execution search",
                rule="programs = (container with thread_safe::yes, capacity 1-3, 3-5 keys, sequential prefix, 2-3 threads x 1-3 operations from the whole vocabulary incl. range forms, "
                     "clean, age, clear, update_ttl and the observers, sequential suffix of scans / evicting inserts / clock steps) drawn by rapidcheck; each program is run under up to 6 "
                     "generated schedules plus a depth-first enumeration of its lock-granularity schedule tree (capped per tier; programs_fully_enumerated counts complete trees); "
                     "distinct = hash of the program text; non-trivial = in at least one run an operation of another thread acquired the lock between invocation and response of an operation",
                assumptions=["schedule points are operation invocation and lock acquisition: interleavings inside unlocked code are below the granularity (sampled by C07's engine instead)",
                             "a method that omits the lock has no schedule point and runs atomically here (C07 catches that mutation)",
                             "the clock is constant during the concurrent phase, as the property stipulates"]),
    "C07": dict(driver="race", mode="pairwise",
                quick={"iters": 30, "reps": 4, "programs": 60, "prog_ops": 25, "sched_cases": 300, "sched_exhaust": 30},
                thorough={"iters": 300, "reps": 8, "programs": 2000, "prog_ops": 40, "sched_cases": 3000, "sched_exhaust": 200, "sched_maxops": 3},
                rule="for every container (thread_safe::yes) every unordered pair {A,B} of public member functions incl. A=B is run on two free threads released together, "
                     "each calling its method `iters` times with generated arguments over a shared small key universe after a generated prefix that fills the container and "
                     "expires part of it (complete matrix, four repetitions: Tracked / std::string / BigTracked values at capacity 1-4, and capacity 150 with long ranges; plus 3-4 thread random programs); "
                     "then generated thread programs are run under harness-chosen schedules (the schedule engine's baton scheduler, hidden from TSan by annotations) with ThreadSanitizer as the oracle; "
                     "distinct = (container, A, B, seed); "
                     "non-trivial = both threads finished, their execution windows overlapped in wall-clock time and at least one call took a hit path",
                assumptions=["ThreadSanitizer sees only instrumented code: accesses inside libstdc++.so (list splice, rb-tree rebalance) are invisible, header code (hash lookup, element fields, counters) is visible",
                             "the OS scheduler decides the interleaving; detection is happens-before based and does not need the accesses to overlap in time"]),
    "C08": dict(mode="model", profile="general", **tiers(5000, 100, 40000, 200, q_fuzz_s=20, t_fuzz_s=240),
                rule=GEN_RULE + "plus libFuzzer byte strings decoded to cases (16 jobs, one container kind each); the monitor is ASan + UBSan + libstdc++ checked iterators + "
                "the Tracked value type (self pointer, magic, owned heap block, live-instance counter that must return to its baseline when the container is destroyed); "
                "non-trivial = at least two slot recycles (removal -> creation) in the history",
                needs=["slot_recycles"],
                assumptions=["uninitialised reads are not monitored (no MSan-instrumented libstdc++ in this image)",
                             "value types whose copy / move / assignment throw are outside the generated domain (no listed property covers exception safety)"]),
    "C09": dict(mode="model", profile="general", **tiers(12000, 60, 60000, 120, t_fuzz_s=90),
                rule=GEN_RULE + "non-trivial = at least one rejected and one accepted insert whose key had a prior history (erased, evicted or expired)",
                needs=["rejected_with_prior_history", "accepted_with_prior_history"]),
    "C10": dict(fuzz_kinds=[0, 6, 7], mode="model", profile="recency", kinds=["lru", "tlru", "utlru"], **tiers(12000, 60, 60000, 120, t_fuzz_s=60),
                rule=GEN_RULE + "non-trivial = at least one eviction whose victim is not the earliest-inserted resident (LRU distinguishable from FIFO)",
                needs=["evict_victim_not_oldest_inserted"]),
    "C11": dict(fuzz_kinds=[3, 4], mode="model", profile="lfu", **tiers(12000, 60, 60000, 120, t_fuzz_s=60),
                rule=GEN_RULE + "non-trivial = at least one eviction while the residents' use counts are not all equal",
                needs=["evict_with_nonuniform_counts"]),
    "C12": dict(fuzz_kinds=[2], mode="model", profile="fifo", **tiers(12000, 60, 60000, 120, t_fuzz_s=60),
                rule=GEN_RULE + "non-trivial = an eviction after an erase of a non-oldest entry and a refill, or after the oldest entry was updated / looked up",
                needs=["fifo_evict_after_mid_erase_refill", "fifo_evict_after_oldest_touched"]),
    "C13": dict(fuzz_kinds=[1], mode="model", profile="recency", kinds=["mru"], **tiers(12000, 60, 60000, 120, t_fuzz_s=60),
                rule=GEN_RULE + "non-trivial = at least one eviction whose victim is not the most recently inserted resident",
                needs=["evict_victim_not_newest_inserted"]),
    "C14": dict(fuzz_kinds=[4], mode="model", profile="lfuda", **tiers(12000, 60, 60000, 120, t_fuzz_s=60),
                rule=GEN_RULE + "non-trivial = an aging point at which some but not all residents are idle and an entry older by insertion than an idle one was used more recently",
                needs=["aging_points_mixed_older_entry_fresher"]),
    "C15": dict(mode="model", profile="rr", profiles=[("rr", None, "model", 1.0)] * 6 + [("rrstats", None, "stats-rr", 0.02)] * 2 + [("rrmass", None, "stats-rr-mass", 0.003, "plain")],
                thorough_profiles=[("rr", None, "model", 1.0)] * 6 + [("rrstats", None, "stats-rr", 0.02)] * 2 + [("rrmass_t", None, "stats-rr-mass", 0.001, "plain")],
                **tiers(12000, 60, 60000, 120),
                rule=GEN_RULE + "non-trivial = (model mode) at least two evictions and at least one erase of a live key in the same history; "
                "(stats-rr mode, 2 workers in 9) a run of 400*capacity evicting inserts with at least one interleaved erase+refill, victim-rank histogram checked; "
                "(stats-rr-mass mode, 1 worker in 9) capacity 300 / 5000 / 70000 (thorough: also 140000), 30*capacity evictions, run in an engine build without sanitizers and checked iterators, none of the original residents may survive; key tables: mixed, multiples of 64, high-bit-only",
                needs=["evictions"]),
    "C16": dict(fuzz_kinds=[6, 7], mode="model", profile="ttlfull", **tiers(12000, 60, 60000, 120, t_fuzz_s=60),
                rule=GEN_RULE + "non-trivial = an insert of a new key into a full tlru/utlru cache holding at least one live and at least one expired resident",
                needs=["inserts_into_full_with_expired_and_live"]),
    "C18": dict(fuzz_kinds=[0, 1, 2, 3, 4, 5, 6, 7, 8, 9], mode="twin-range", profile="range", **tiers(12000, 60, 60000, 120, t_fuzz_s=60),
                rule=GEN_RULE + "every range call is executed as one call on instance A and as the element-wise single calls on instance B at a frozen clock; "
                "non-trivial = a range with a duplicate key, or mixed successes and failures, or more new keys than free slots",
                needs=["twin_range_with_duplicate", "twin_range_mixed_success", "range_insert_with_eviction"]),
    "C19": dict(fuzz_kinds=[0, 1, 2, 3, 4, 5, 6, 7, 8, 9], mode="twin-noop", profile="noop", **tiers(12000, 60, 60000, 120, t_fuzz_s=60),
                rule=GEN_RULE + "instance B additionally executes generated no-effect calls (peek lookups, missing lookups, rejected inserts, erases of absent keys; decided by the model at run time); "
                "non-trivial = at least one spliced call followed by at least one eviction or aging point",
                needs=["splices_executed", "evictions_after_splice"]),
    "C20": dict(fuzz_kinds=[7, 8], mode="twin-clear", profile="clear", crash_rule="after_clear", **tiers(12000, 60, 60000, 120, t_fuzz_s=60),
                rule=GEN_RULE + "instance B is constructed fresh (same capacity, currently configured TTL) at the last clear() of the history and both run the continuation; "
                "non-trivial = clear() on a non-empty container and a continuation with at least one eviction (utlru) or expiry",
                needs=["twin_created_after_clear", "clear_on_nonempty"]),
    "C17": dict(fuzz_kinds=[6, 7, 8, 9], mode="model", profile="clean", **tiers(12000, 60, 60000, 120, t_fuzz_s=60),
                rule=GEN_RULE + "non-trivial = clean_expired_values() called with at least one live and at least one expired resident",
                needs=["clean_with_live_and_expired"]),
}

# ---- text for MANIFEST.json ---------------------------------------------------------------------------
HOOK_COMMITS = ["971dac3"]
_E1 = "E1 seq"
_NOTE_MODEL = ("trusted: the reference model in src/model.hpp + src/engine.cpp (written from the property statements), the adapters, "
               "the link-time replaced clock/random_device, g++ sanitizers; bounded: capacity <= 33, universe <= capacity+3, histories <= 120 operations")
_NOTE_TWIN = ("trusted: the adapters and the comparison code; the oracle is a second real instance, not the model (the model only resolves clock targets "
              "and decides which spliced calls are no-effect); bounded as the model checks")


def _mt(engine, technique, level, note, ref):
    return {"engine": engine, "technique": technique, "level": level, "note": note, "ref": ref}


_PBT = "property-based testing (rapidcheck, generated operation histories) against "
MANIFEST_TEXT = {
    "C01": _mt(_E1, _PBT + "a reference model with self-describing values; thorough adds libFuzzer on the same oracle",
               "bounded exploration: every lookup result in generated histories over all ten containers is compared with the model's latest-write map; no absence proof", _NOTE_MODEL, "DESIGN.md 5/C01"),
    "C02": _mt(_E1, _PBT + "model invariants on size()/empty()/capacity() after every step", "bounded exploration of size trajectories incl. expiry and clock advances", _NOTE_MODEL, "DESIGN.md 5/C02"),
    "C03": _mt(_E1, _PBT + "the model's permitted-loss rule (peek scan of all live keys after every call)", "bounded exploration; every loss of a live key must be one the statement permits", _NOTE_MODEL, "DESIGN.md 5/C03"),
    "C04": _mt(_E1, _PBT + "the model's deadlines on a harness-owned clock (exact-deadline and +-1 ns probes)", "bounded exploration with constructed boundary instants", _NOTE_MODEL, "DESIGN.md 5/C04"),
    "C05": _mt(_E1, _PBT + "the model's deadlines on a harness-owned clock (deadline-1 ns probes, deadline-moving writes)", "bounded exploration with constructed boundary instants", _NOTE_MODEL, "DESIGN.md 5/C05"),
    "C06": _mt("E3 sched", "property-based testing of generated thread programs under harness-owned schedules (generated + depth-first enumerated; schedule points: invocation, lock acquisition, and every value copy inside the critical sections); oracle = linearizability search by sequential re-execution of the same code",
               "bounded exploration: 2-3 threads x 1-3 operations, lock-granularity schedules exhaustive for the small programs counted in the evidence, sampled otherwise",
               "trusted: the scheduler and the linearization search in src/sched.cpp; the sequential behaviour itself is pinned by C01-C20; hooks ON only in this engine (lock.hpp, CAPPUCCINO_VERIF_HOOKS)", "DESIGN.md 6.1"),
    "C07": _mt("E4 race + E3 sched (TSan build)", "dynamic race detection (ThreadSanitizer happens-before) over the completely enumerated public method-pair matrix with generated arguments and prefixes, generated multi-thread programs on free threads, "
               "and generated thread programs under harness-chosen schedules (baton scheduler hidden from TSan by annotations)",
               "bounded exploration: the pair matrix is complete, argument space and schedules are sampled / enumerated up to a cap; a report is a data race in the C++ memory model on the executed path",
               "trusted: ThreadSanitizer (clang 14) and its annotation interface, uninstrumented libstdc++.so is invisible; the matrix runs the production headers (hooks off), the scheduled phase runs with the lock.hpp hooks on", "DESIGN.md 6.2, 0"),
    "C08": _mt("E1 seq + E2 fuzz", "fuzzing (libFuzzer, structure-aware byte decoder) and property-based testing (rapidcheck) with ASan + UBSan + libstdc++ debug-mode iterators + an instrumented value type as the monitor",
               "bounded exploration: sanitizers see only the executions run; all ten containers x both thread_safe modes x Tracked and std::string values", "trusted: sanitizer runtimes, libstdc++ debug mode, src/values.hpp Tracked accounting; no MSan", "DESIGN.md 5/C08"),
    "C09": _mt(_E1, _PBT + "the model's allow-mode table; insert_range decided by enumerating every outcome the single inserts permit", "bounded exploration over key histories x allow modes", _NOTE_MODEL, "DESIGN.md 5/C09"),
    "C10": _mt(_E1, _PBT + "the model's recency stamps (victim must be the least recently used live key)", "bounded exploration of recency-shuffling histories on lru/tlru/utlru", _NOTE_MODEL, "DESIGN.md 5/C10"),
    "C11": _mt(_E1, _PBT + "the model's use counts (peeked after every step) and minimal-count victim rule", "bounded exploration on lfu (and lfuda between aging points)", _NOTE_MODEL, "DESIGN.md 5/C11"),
    "C12": _mt(_E1, _PBT + "the model's insertion stamps (victim must be the earliest inserted)", "bounded exploration on fifo incl. iterator-pair overloads", _NOTE_MODEL, "DESIGN.md 5/C12"),
    "C13": _mt(_E1, _PBT + "the model's recency stamps (victim must be the most recently used)", "bounded exploration on mru", _NOTE_MODEL, "DESIGN.md 5/C13"),
    "C14": _mt(_E1, _PBT + "the model's aging rule on a harness-owned clock (idle boundary and +-1 ns)", "bounded exploration on lfuda with dyadic ratios", _NOTE_MODEL, "DESIGN.md 5/C14"),
    "C15": _mt(_E1 + " (+ sanitizer-free build for the mass runs)", _PBT + "the model (one prior resident per eviction), a victim-rank histogram over 400*capacity evictions per generated seed, and a mass-survival test at capacity 300-70000 (140000) with three key tables",
               "bounded exploration; spread tested, uniformity only reported", _NOTE_MODEL, "DESIGN.md 5/C15, 12.2b"),
    "C16": _mt(_E1, _PBT + "the model: no live key lost while an expired entry is resident", "bounded exploration of full caches with live/expired mixes, update_ttl shorter/longer", _NOTE_MODEL, "DESIGN.md 5/C16"),
    "C17": _mt(_E1, _PBT + "the model: return value = size drop = resident expired entries; no live loss", "bounded exploration incl. deadline order != write order", _NOTE_MODEL, "DESIGN.md 5/C17"),
    "C18": _mt(_E1, "differential property-based testing: range call on instance A vs element-wise single calls on twin instance B at a frozen clock, all later results compared",
               "bounded exploration of range contents (empty, duplicates, overflow, mixed) and continuations", _NOTE_TWIN, "DESIGN.md 5/C18"),
    "C19": _mt(_E1, "metamorphic property-based testing: history H on instance A vs H with generated no-effect calls spliced in on twin B, shared results compared",
               "bounded exploration; what the statement allows to differ (size, clean count, results addressed to expired keys) is not compared", _NOTE_TWIN, "DESIGN.md 5/C19"),
    "C20": _mt(_E1, "differential property-based testing: instance after clear() vs freshly constructed twin, same generated continuation", "bounded exploration on utlru and ut_map", _NOTE_TWIN, "DESIGN.md 5/C20"),
}
NOT_APPLICABLE = [
]
