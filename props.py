"""Per-property configuration of the checks (which engine/mode/profile decides each property)."""

ALL = ["lru", "mru", "fifo", "lfu", "lfuda", "rr", "tlru", "utlru", "ut_map", "ut_set"]
TTLK = ["tlru", "utlru", "ut_map", "ut_set"]


def tiers(qc, qs, tc, ts, **kw):
    d = {"quick": {"cases": qc, "max_size": qs}, "thorough": {"cases": tc, "max_size": ts}}
    for k, v in kw.items():
        tier, key = k.split("_", 1)
        d[{"q": "quick", "t": "thorough"}[tier]][key] = v
    return d


GEN_RULE = ("cases = (container kind, thread_safe mode, key/value types, capacity, load factor, TTL/tick/ratio, RNG seed, operation list) "
            "drawn by a rapidcheck Gen<Case> (16 workers, seeds derived from VERIF_SEED); distinct = 64-bit hash of the canonical case text; ")

PROPS = {
    "C01": dict(mode="model", profile="general", **tiers(1500, 60, 40000, 120, t_fuzz_s=90),
                rule=GEN_RULE + "non-trivial = at least one slot recycle (a new key inserted after an erase or eviction) followed by at least one checked hit",
                needs=["slot_recycles", "checked_hits_after_recycle"]),
    "C02": dict(mode="model", profile="general", **tiers(1500, 60, 40000, 120, t_fuzz_s=90),
                rule=GEN_RULE + "non-trivial = the size() trajectory is non-monotone (a decrease by erase/evict/expiry/clear followed by an increase)",
                needs=["size_dec_then_inc", "steps_at_capacity"]),
    "C03": dict(mode="model", profile="general", **tiers(1500, 60, 40000, 120, t_fuzz_s=90),
                rule=GEN_RULE + "non-trivial = at least one insert of a new key at size()==capacity() and at least one insert into a slot freed by an erase on a previously full cache (ut_map/ut_set: any insert after a removal)",
                needs=["inserts_into_full", "inserts_into_free_slot_after_erase_on_full"]),
    "C04": dict(mode="model", profile="ttl", **tiers(1500, 60, 40000, 120),
                rule=GEN_RULE + "non-trivial = at least one lookup of a key whose entry has expired and has not been observably removed",
                needs=["zombie_probes", "zombie_probes_at_exact_deadline"]),
    "C05": dict(mode="model", profile="ttl", **tiers(1500, 60, 40000, 120),
                rule=GEN_RULE + "non-trivial = at least one hit within 1 ms before the deadline and at least one write that moved an existing deadline",
                needs=["hits_within_1ms_of_deadline", "writes_moving_a_deadline"]),
    "C09": dict(mode="model", profile="general", **tiers(1500, 60, 40000, 120, t_fuzz_s=90),
                rule=GEN_RULE + "non-trivial = at least one rejected and one accepted insert whose key had a prior history (erased, evicted or expired)",
                needs=["rejected_with_prior_history", "accepted_with_prior_history"]),
    "C10": dict(mode="model", profile="recency", kinds=["lru", "tlru", "utlru"], **tiers(2000, 60, 40000, 120),
                rule=GEN_RULE + "non-trivial = at least one eviction whose victim is not the earliest-inserted resident (LRU distinguishable from FIFO)",
                needs=["evict_victim_not_oldest_inserted"]),
    "C11": dict(mode="model", profile="lfu", **tiers(2000, 60, 40000, 120),
                rule=GEN_RULE + "non-trivial = at least one eviction while the residents' use counts are not all equal",
                needs=["evict_with_nonuniform_counts"]),
    "C12": dict(mode="model", profile="fifo", **tiers(2000, 60, 40000, 120),
                rule=GEN_RULE + "non-trivial = an eviction after an erase of a non-oldest entry and a refill, or after the oldest entry was updated / looked up",
                needs=["fifo_evict_after_mid_erase_refill", "fifo_evict_after_oldest_touched"]),
    "C13": dict(mode="model", profile="recency", kinds=["mru"], **tiers(2000, 60, 40000, 120),
                rule=GEN_RULE + "non-trivial = at least one eviction whose victim is not the most recently inserted resident",
                needs=["evict_victim_not_newest_inserted"]),
    "C14": dict(mode="model", profile="lfuda", **tiers(2000, 60, 40000, 120),
                rule=GEN_RULE + "non-trivial = an aging point at which some but not all residents are idle and an entry older by insertion than an idle one was used more recently",
                needs=["aging_points_mixed_older_entry_fresher"]),
    "C15": dict(mode="model", profile="rr", **tiers(2000, 60, 40000, 120),
                rule=GEN_RULE + "non-trivial = at least two evictions and at least one erase of a live key in the same history",
                needs=["evictions"]),
    "C16": dict(mode="model", profile="ttlfull", **tiers(2000, 60, 40000, 120),
                rule=GEN_RULE + "non-trivial = an insert of a new key into a full tlru/utlru cache holding at least one live and at least one expired resident",
                needs=["inserts_into_full_with_expired_and_live"]),
    "C17": dict(mode="model", profile="clean", **tiers(2000, 60, 40000, 120),
                rule=GEN_RULE + "non-trivial = clean_expired_values() called with at least one live and at least one expired resident",
                needs=["clean_with_live_and_expired"]),
}
