// One case format for every sequential engine: canonical text (the replay file), a total byte
// decoder (libFuzzer) and an encoder (seed corpus).  Any token sequence normalises to a valid case:
// integers are reduced modulo their domain, operations a container lacks are dropped at run time.
#pragma once
#include "box.hpp"
#include "values.hpp"

#include <cstdint>
#include <sstream>
#include <string>
#include <vector>

namespace cs
{
enum OpCode
{
    O_INS = 0,
    O_INSR,
    O_ERA,
    O_ERAR,
    O_FIND,
    O_FINDUC,
    O_FINDR,
    O_FINDRF,
    O_CLEAN,
    O_AGE,
    O_UTTL,
    O_CLEAR,
    O_ADV,
    O_ADVTO,
    O_SCAN,
    O_OBS, // size()/empty()/capacity() — always checked anyway; explicit op for thread programs
    O_REP, // rep m n: repeat the previous m lookup operations n more times (long histories cheaply: wrapping counters)
    O_COUNT
};
inline const char* op_name(int o)
{
    static const char* n[] = {"ins", "insr", "era", "erar", "find", "finduc", "findr", "findrf",
                              "clean", "age", "uttl", "clear", "adv", "advto", "scan", "obs", "rep"};
    return (o >= 0 && o < O_COUNT) ? n[o] : "?";
}

struct Elem
{
    int     k{0};
    int64_t ttl_ms{0};
};

struct Op
{
    int               code{O_FIND};
    bool              splice{false}; // '~' prefix: executed by twin B only (twin-noop mode), ignored elsewhere
    int               k{0};
    int               allow{bx::A_BOTH};
    int64_t           ttl_ms{0};  // ins (tlru), uttl
    bool              peek{false};
    int               flavour{bx::F_VEC};
    std::vector<Elem> elems;      // range ops
    int64_t           dt_ns{0};   // adv
    int               j{0};       // advto: index of the pending deadline / idle boundary
    int               off{0};     // advto: -1, 0, +1 ns
    int               mode{0};    // scan: 0 live, 1 live+absent, 2 all (incl. expired)
    bool              same{false}; // ins: write the value the key already holds (if it is live)
};

struct Case
{
    bx::Config      cfg;
    int             uni{3}; // key universe size
    std::vector<Op> ops;
};

constexpr int     kMaxCap    = 256;
constexpr int     kMaxElems  = 2400;
constexpr int64_t kMaxTtlMs  = 1'000'000'000'000ll; // 1e12 ms (31 years): now + ttl still fits the clock's 64-bit nanoseconds
constexpr int64_t kMaxAdvNs  = 200'000'000'000ll;

inline int64_t clampi(int64_t v, int64_t lo, int64_t hi) { return v < lo ? lo : v > hi ? hi : v; }
inline int     modi(int64_t v, int m)
{
    if (m <= 0)
        return 0;
    int64_t r = v % m;
    if (r < 0)
        r += m;
    return static_cast<int>(r);
}

inline void normalize_op(Op& o, int uni)
{

    o.code    = modi(o.code, O_COUNT);
    o.k       = modi(o.k, uni);
    o.allow   = 1 + modi(o.allow - 1, 3);
    o.ttl_ms  = clampi(o.ttl_ms, 0, kMaxTtlMs);
    o.flavour = modi(o.flavour, 4);
    if (o.elems.size() > static_cast<size_t>(kMaxElems))
        o.elems.resize(kMaxElems);
    for (auto& e : o.elems)
    {
        e.k      = modi(e.k, uni);
        e.ttl_ms = clampi(e.ttl_ms, 0, kMaxTtlMs);
    }
    o.dt_ns = clampi(o.dt_ns, 0, kMaxAdvNs);
    o.j     = modi(o.j, 64);
    o.off   = static_cast<int>(clampi(o.off, -1, 1));
    o.mode  = modi(o.mode, 3);
    }

// make every field legal (total: never rejects)
inline void normalize(Case& c)
{
    auto& g = c.cfg;
    g.kind  = modi(g.kind, bx::K_COUNT);
    g.types = modi(g.types, 3);
    g.kmode = modi(g.kmode, 3);
    g.cap   = static_cast<size_t>(clampi(static_cast<int64_t>(g.cap), 1, kMaxCap));
    if (!(g.mlf > 0.0f) || !(g.mlf < 1e9f))
        g.mlf = 1.0f;
    // memory bound only: bucket count ~ cap / mlf
    if (static_cast<double>(g.cap) / g.mlf > 65536.0)
        g.mlf = static_cast<float>(g.cap) / 65536.0f;
    g.ttl_ms    = clampi(g.ttl_ms, 0, kMaxTtlMs);
    g.tick_ms   = clampi(g.tick_ms, 0, kMaxTtlMs);
    g.ratio_den = static_cast<int>(clampi(g.ratio_den, 1, 64));
    g.ratio_num = static_cast<int>(clampi(g.ratio_num, 0, g.ratio_den));
    c.uni       = static_cast<int>(clampi(c.uni, 1, vv::kMaxKeys));
    for (auto& o : c.ops)
        normalize_op(o, c.uni);
}

inline std::string op_to_text(const Op& o)
{
    std::ostringstream s;

    if (o.splice)
        s << "~";
    s << op_name(o.code);
    switch (o.code)
    {
        case O_INS:
            s << " " << o.k << " " << o.allow << " " << o.ttl_ms;
            if (o.same)
                s << " 1";
            break;
        case O_REP: s << " " << o.j << " " << o.ttl_ms; break;
        case O_INSR:
            s << " " << o.allow << " " << o.flavour << " " << o.elems.size();
            for (auto& e : o.elems)
                s << " " << e.k << " " << e.ttl_ms;
            break;
        case O_ERA: s << " " << o.k; break;
        case O_ERAR:
            s << " " << o.flavour << " " << o.elems.size();
            for (auto& e : o.elems)
                s << " " << e.k;
            break;
        case O_FIND:
        case O_FINDUC: s << " " << o.k << " " << (o.peek ? 1 : 0); break;
        case O_FINDR:
        case O_FINDRF:
            s << " " << (o.peek ? 1 : 0) << " " << o.flavour << " " << o.elems.size();
            for (auto& e : o.elems)
                s << " " << e.k;
            break;
        case O_UTTL: s << " " << o.ttl_ms; break;
        case O_ADV: s << " " << o.dt_ns; break;
        case O_ADVTO: s << " " << o.j << " " << o.off; break;
        case O_SCAN:
        case O_OBS: s << " " << o.mode; break;
        default: break;
    }
    return s.str();
}

inline std::string to_text(const Case& c)
{
    std::ostringstream s;
    const auto&        g = c.cfg;
    s << "kind " << bx::kind_name(g.kind) << "\n";
    s << "sync " << (g.sync ? 1 : 0) << "\n";
    s << "types " << g.types << "\n";
    s << "cap " << g.cap << "\n";
    s << "uni " << c.uni << "\n";
    s << "mlf " << g.mlf << "\n";
    s << "ttl " << g.ttl_ms << "\n";
    s << "tick " << g.tick_ms << "\n";
    s << "ratio " << g.ratio_num << " " << g.ratio_den << "\n";
    s << "seed " << g.seed << "\n";
    if (g.kmode != 0)
        s << "kmode " << g.kmode << "\n";
    s << "--\n";
    for (const auto& o : c.ops)
        s << op_to_text(o) << "\n";
    return s.str();
}

// parses one operation line ("ins 2 3 5", "~find 1 0", ...); false if the line names no operation
inline bool op_from_line(const std::string& line, Op& out)
{
    std::istringstream ls(line);
    std::string        w;
    ls >> w;
        Op o;
    if (!w.empty() && w[0] == '~')
    {
        o.splice = true;
        w.erase(0, 1);
    }
    int code = -1;
    for (int i = 0; i < O_COUNT; ++i)
        if (w == op_name(i))
            code = i;
    if (code < 0)
        return false;
    o.code = code;
    size_t n = 0;
    int    p = 0;
    switch (code)
    {
        case O_INS:
        {
            ls >> o.k >> o.allow >> o.ttl_ms;
            int sm = 0;
            if (ls >> sm)
                o.same = sm != 0;
            break;
        }
        case O_REP: ls >> o.j >> o.ttl_ms; break;
        case O_INSR:
            ls >> o.allow >> o.flavour >> n;
            for (size_t i = 0; i < n && i < 2500 && ls; ++i)
            {
                Elem e;
                ls >> e.k >> e.ttl_ms;
                if (ls)
                    o.elems.push_back(e);
            }
            break;
        case O_ERA: ls >> o.k; break;
        case O_ERAR:
            ls >> o.flavour >> n;
            for (size_t i = 0; i < n && i < 2500 && ls; ++i)
            {
                Elem e;
                ls >> e.k;
                if (ls)
                    o.elems.push_back(e);
            }
            break;
        case O_FIND:
        case O_FINDUC:
            ls >> o.k >> p;
            o.peek = p != 0;
            break;
        case O_FINDR:
        case O_FINDRF:
            ls >> p >> o.flavour >> n;
            o.peek = p != 0;
            for (size_t i = 0; i < n && i < 2500 && ls; ++i)
            {
                Elem e;
                ls >> e.k;
                if (ls)
                    o.elems.push_back(e);
            }
            break;
        case O_UTTL: ls >> o.ttl_ms; break;
        case O_ADV: ls >> o.dt_ns; break;
        case O_ADVTO: ls >> o.j >> o.off; break;
        case O_SCAN:
        case O_OBS: ls >> o.mode; break;
        default: break;
    }
    out = std::move(o);
    return true;
}

// tolerant parser: unknown lines are ignored, missing numbers read as 0; result is normalised
inline bool from_text(const std::string& text, Case& c)
{
    c = Case{};
    std::istringstream in(text);
    std::string        line;
    bool               in_ops = false;
    bool               saw_kind = false;
    while (std::getline(in, line))
    {
        if (line.empty() || line[0] == '#')
            continue;
        std::istringstream ls(line);
        std::string        w;
        ls >> w;
        if (!in_ops)
        {
            if (w == "--")
                in_ops = true;
            else if (w == "kind")
            {
                std::string n;
                ls >> n;
                int k = bx::kind_from(n);
                if (k < 0)
                    return false;
                c.cfg.kind = k;
                saw_kind   = true;
            }
            else if (w == "sync")
            {
                int v = 0;
                ls >> v;
                c.cfg.sync = v != 0;
            }
            else if (w == "types")
                ls >> c.cfg.types;
            else if (w == "cap")
            {
                long long v = 1;
                ls >> v;
                c.cfg.cap = static_cast<size_t>(v < 0 ? 1 : v);
            }
            else if (w == "uni")
                ls >> c.uni;
            else if (w == "mlf")
                ls >> c.cfg.mlf;
            else if (w == "ttl")
                ls >> c.cfg.ttl_ms;
            else if (w == "tick")
                ls >> c.cfg.tick_ms;
            else if (w == "ratio")
                ls >> c.cfg.ratio_num >> c.cfg.ratio_den;
            else if (w == "seed")
                ls >> c.cfg.seed;
            else if (w == "kmode")
                ls >> c.cfg.kmode;
            continue;
        }
        Op o;
        if (!op_from_line(line, o))
            continue;
        c.ops.push_back(std::move(o));
    }
    if (!saw_kind)
        return false;
    normalize(c);
    return true;
}

// ---- bytes <-> case (libFuzzer).  Plain sequential reader; running out of bytes reads zeros. ----
struct Reader
{
    const uint8_t* p;
    size_t         n;
    size_t         i{0};
    uint8_t        u8() { return i < n ? p[i++] : 0; }
    bool           done() const { return i >= n; }
};
inline int64_t ttl_from_byte(uint8_t b)
{
    static const int64_t t[] = {0, 1, 2, 3, 5, 8, 50, 1000};
    return t[b % 8];
}
inline uint8_t ttl_to_byte(int64_t ms)
{
    static const int64_t t[] = {0, 1, 2, 3, 5, 8, 50, 1000};
    uint8_t              best = 0;
    for (uint8_t i = 0; i < 8; ++i)
        if (t[i] <= ms)
            best = i;
    return best;
}
inline float mlf_from_byte(uint8_t b)
{
    static const float t[] = {1.0f, 0.01f, 0.1f, 0.5f, 2.0f, 7.5f, 100.0f, 1e6f};
    return t[b % 8];
}
inline int64_t adv_from_byte(uint8_t b)
{
    static const int64_t t[] = {0, 1, 999'999, 1'000'000, 1'000'001, 2'000'000, 3'000'000, 5'000'000,
                                8'000'000, 4'999'999, 5'000'001, 10'000'000, 50'000'000, 1'000'000'000, 7, 2'999'999};
    return t[b % 16];
}
inline Case from_bytes(const uint8_t* data, size_t size, int forced_kind = -1)
{
    Reader r{data, size};
    Case   c;
    auto&  g   = c.cfg;
    uint8_t b0 = r.u8();
    g.kind     = forced_kind >= 0 ? forced_kind : b0 % bx::K_COUNT;
    uint8_t b1 = r.u8();
    g.sync     = b1 & 1;
    g.types    = ((b1 >> 1) & 3) % 3;
    g.kmode    = ((b1 >> 3) & 3) % 3;
    uint8_t b2 = r.u8();
    g.cap      = 1 + (b2 % 8);
    if (b2 >= 240)
        g.cap = (b2 & 1) ? 33 : 16;
    uint8_t b3 = r.u8();
    c.uni      = static_cast<int>(g.cap) + 1 + (b3 % 3);
    if ((g.kind == bx::K_UTMAP || g.kind == bx::K_UTSET) && b3 >= 224)
        c.uni = 70 + (b3 % 32) * 2; // large universes for the unbounded containers
    g.mlf      = mlf_from_byte(r.u8());
    g.ttl_ms   = ttl_from_byte(r.u8());
    uint8_t b6 = r.u8();
    static const int64_t ticks[] = {1, 2, 5, 10};
    g.tick_ms                    = ticks[b6 % 4];
    static const int rn[]        = {1, 0, 1, 1, 3, 1};
    static const int rd[]        = {2, 1, 8, 4, 4, 1};
    g.ratio_num                  = rn[(b6 >> 2) % 6];
    g.ratio_den                  = rd[(b6 >> 2) % 6];
    g.seed                       = r.u8() | (static_cast<uint64_t>(r.u8()) << 8);
    while (!r.done() && c.ops.size() < 400)
    {
        Op      o;
        uint8_t h = r.u8();
        o.code    = h % O_COUNT;
        o.splice  = h >= 224; // twin-noop mode only: a call the second instance makes in addition (ignored elsewhere)
        uint8_t a = r.u8();
        switch (o.code)
        {
            case O_INS:
                o.k      = a & 31;
                o.allow  = 1 + ((a >> 5) % 3);
                o.ttl_ms = ttl_from_byte(h >> 4);
                o.same   = ((a >> 5) & 3) == 3;
                break;
            case O_INSR:
            case O_ERAR:
            case O_FINDR:
            case O_FINDRF:
            {
                o.allow   = 1 + ((a >> 5) % 3);
                o.flavour = (a >> 3) & 3;
                o.peek    = (a >> 2) & 1;
                int n     = (h >> 4) % 9;
                for (int i = 0; i < n; ++i)
                {
                    uint8_t e = r.u8();
                    o.elems.push_back(Elem{e & 31, ttl_from_byte(e >> 5)});
                }
                break;
            }
            case O_ERA: o.k = a & 31; break;
            case O_FIND:
            case O_FINDUC:
                o.k    = a & 31;
                o.peek = (a >> 5) & 1;
                break;
            case O_UTTL: o.ttl_ms = ttl_from_byte(a); break;
            case O_ADV: o.dt_ns = adv_from_byte(a); break;
            case O_ADVTO:
                o.j   = a & 15;
                o.off = static_cast<int>((a >> 4) % 3) - 1;
                break;
            case O_SCAN: o.mode = a % 3; break;
            case O_REP:
            {
                static const int64_t reps[] = {2, 3, 127, 128, 254, 255, 256, 257, 510, 65535, 65536, 5};
                o.j      = 1 + (a & 3);
                o.ttl_ms = reps[(a >> 2) % 12];
                break;
            }
            default: break;
        }
        c.ops.push_back(std::move(o));
    }
    normalize(c);
    return c;
}
// inverse of from_bytes for everything the byte format can express (seed corpus for libFuzzer)
inline std::vector<uint8_t> to_bytes(const Case& c)
{
    std::vector<uint8_t> b;
    const auto&          g = c.cfg;
    b.push_back(static_cast<uint8_t>(g.kind));
    b.push_back(static_cast<uint8_t>((g.sync ? 1 : 0) | ((g.types % 3) << 1) | ((g.kmode % 3) << 3)));
    b.push_back(static_cast<uint8_t>(g.cap >= 1 && g.cap <= 8 ? g.cap - 1 : (g.cap == 33 ? 241 : 240)));
    int extra = c.uni - static_cast<int>(g.cap) - 1;
    b.push_back(static_cast<uint8_t>(extra < 0 ? 0 : extra > 2 ? 2 : extra));
    {
        static const float t[] = {1.0f, 0.01f, 0.1f, 0.5f, 2.0f, 7.5f, 100.0f, 1e6f};
        uint8_t            m   = 0;
        for (uint8_t i = 0; i < 8; ++i)
            if (t[i] == g.mlf)
                m = i;
        b.push_back(m);
    }
    b.push_back(ttl_to_byte(g.ttl_ms));
    {
        uint8_t tk = g.tick_ms <= 1 ? 0 : g.tick_ms <= 2 ? 1 : g.tick_ms <= 5 ? 2 : 3;
        static const int rn[] = {1, 0, 1, 1, 3, 1};
        static const int rd[] = {2, 1, 8, 4, 4, 1};
        uint8_t          ri   = 0;
        for (uint8_t i = 0; i < 6; ++i)
            if (rn[i] == g.ratio_num && rd[i] == g.ratio_den)
                ri = i;
        b.push_back(static_cast<uint8_t>(tk | (ri << 2)));
    }
    b.push_back(static_cast<uint8_t>(g.seed & 0xff));
    b.push_back(static_cast<uint8_t>((g.seed >> 8) & 0xff));
    for (const auto& o : c.ops)
    {
        uint8_t h = static_cast<uint8_t>(o.code), a = 0;
        switch (o.code)
        {
            case O_INS:
                h = static_cast<uint8_t>(h | (ttl_to_byte(o.ttl_ms) << 4));
                a = static_cast<uint8_t>((o.k & 31) | ((o.allow - 1) << 5));
                break;
            case O_INSR:
            case O_ERAR:
            case O_FINDR:
            case O_FINDRF:
            {
                size_t n = o.elems.size() > 8 ? 8 : o.elems.size();
                h        = static_cast<uint8_t>(h | (n << 4));
                a        = static_cast<uint8_t>(((o.allow - 1) << 5) | ((o.flavour & 3) << 3) | ((o.peek ? 1 : 0) << 2));
                b.push_back(h);
                b.push_back(a);
                for (size_t i = 0; i < n; ++i)
                    b.push_back(static_cast<uint8_t>((o.elems[i].k & 31) | (ttl_to_byte(o.elems[i].ttl_ms) << 5)));
                continue;
            }
            case O_ERA: a = static_cast<uint8_t>(o.k & 31); break;
            case O_FIND:
            case O_FINDUC: a = static_cast<uint8_t>((o.k & 31) | ((o.peek ? 1 : 0) << 5)); break;
            case O_UTTL: a = ttl_to_byte(o.ttl_ms); break;
            case O_ADV:
            {
                static const int64_t t[] = {0, 1, 999'999, 1'000'000, 1'000'001, 2'000'000, 3'000'000, 5'000'000,
                                            8'000'000, 4'999'999, 5'000'001, 10'000'000, 50'000'000, 1'000'000'000, 7, 2'999'999};
                for (uint8_t i = 0; i < 16; ++i)
                    if (t[i] == o.dt_ns)
                        a = i;
                break;
            }
            case O_ADVTO: a = static_cast<uint8_t>((o.j & 15) | ((o.off + 1) << 4)); break;
            case O_SCAN: a = static_cast<uint8_t>(o.mode); break;
            default: break;
        }
        b.push_back(h);
        b.push_back(a);
    }
    return b;
}
} // namespace cs
