// Shared by every engine: how one generated operation is executed on a container through the
// type-erased interface, and how its outcome is represented for comparison.
#pragma once
#include "case.hpp"

#include <algorithm>
#include <sstream>
#include <string>
#include <vector>

namespace ex
{
using bx::FindRes;
using cs::Op;

struct Outcome
{
    bool                 skipped{false};
    bool                 b{false};
    size_t               n{0};
    bool                 hit{false};
    uint64_t             v{0};
    size_t               uc{0};
    std::vector<FindRes> fr;

    std::string str() const
    {
        std::ostringstream s;
        if (skipped)
            return "skipped";
        s << "b=" << b << " n=" << n << " hit=" << hit << " v=" << v << " uc=" << uc << " fr=[";
        for (auto& f : fr)
            s << f.k << ":" << (f.hit ? std::to_string(f.v) : std::string("-")) << " ";
        s << "]";
        return s.str();
    }
    bool same(const Outcome& o) const
    {
        if (skipped != o.skipped || b != o.b || n != o.n || hit != o.hit || uc != o.uc || (hit && v != o.v) || fr.size() != o.fr.size())
            return false;
        for (size_t i = 0; i < fr.size(); ++i)
            if (fr[i].k != o.fr[i].k || fr[i].hit != o.fr[i].hit || (fr[i].hit && fr[i].v != o.fr[i].v))
                return false;
        return true;
    }
};

struct EffElem
{
    int     k;
    int64_t ttl_ms;
    int     orig; // index in the generated element list (names the value)
};

inline uint64_t value_for(int k, int op_idx, int elem_idx)
{
    return static_cast<uint64_t>(k + 1) * 1'000'000ull + (static_cast<uint64_t>(op_idx) * 2411ull) % 997'000ull + static_cast<uint64_t>(elem_idx) + 1ull;
}
inline int key_of_value(uint64_t v) { return static_cast<int>(v / 1'000'000ull) - 1; }


struct Exec
{
    bx::Config cfg;
    bx::Caps   caps;
    explicit Exec(const bx::Config& c) : cfg(c), caps(bx::caps_of(c.kind)) {}

    int flavour_of(const Op& o) const
    {
        int f = o.flavour;
        if (!caps.fifo_iter && f >= bx::F_ITER)
            f = bx::F_VEC;
        return f;
    }

    // the element sequence the container actually iterates
    std::vector<EffElem> effective(const Op& o) const
    {
        std::vector<EffElem> v;
        for (size_t i = 0; i < o.elems.size(); ++i)
            v.push_back(EffElem{o.elems[i].k, o.elems[i].ttl_ms, static_cast<int>(i)});
        const bool reorders = flavour_of(o) == bx::F_ASSOC && !(o.code == cs::O_INSR && cfg.kind == bx::K_TLRU);
        if (reorders)
        {
            std::stable_sort(v.begin(), v.end(), [&](const EffElem& a, const EffElem& b) { return bx::key_less(cfg.types, a.k, b.k); });
            std::vector<EffElem> d;
            for (auto& e : v)
                if (d.empty() || d.back().k != e.k)
                    d.push_back(e);
            v.swap(d);
        }
        return v;
    }

    bool supported(const Op& o) const
    {
        switch (o.code)
        {
            case cs::O_FINDUC: return caps.has_uc;
            case cs::O_CLEAN: return caps.has_clean;
            case cs::O_AGE: return caps.has_age;
            case cs::O_UTTL: return caps.has_update_ttl;
            case cs::O_CLEAR: return caps.has_clear;
            default: return true;
        }
    }

    // run one container call (never a clock op)
    // `value_override`: the value an `ins` writes (same-value writes), otherwise value_for(key, idx, 0)
    Outcome exec(bx::IBox& box, const Op& o, int idx, const uint64_t* value_override = nullptr) const
    {
        Outcome r;
        if (!supported(o))
        {
            r.skipped = true;
            return r;
        }
        const bool peek = caps.has_peek ? o.peek : false;
        switch (o.code)
        {
            case cs::O_INS: r.b = box.insert(o.k, value_override ? *value_override : value_for(o.k, idx, 0), o.allow, o.ttl_ms); break;
            case cs::O_INSR:
            {
                std::vector<bx::KV> kv;
                for (auto& e : o.elems)
                    kv.push_back(bx::KV{e.k, value_for(e.k, idx, static_cast<int>(&e - &o.elems[0])), e.ttl_ms});
                r.n = box.insert_range(kv, o.allow, flavour_of(o));
                break;
            }
            case cs::O_ERA: r.b = box.erase(o.k); break;
            case cs::O_ERAR:
            {
                std::vector<int> ks;
                for (auto& e : o.elems)
                    ks.push_back(e.k);
                r.n = box.erase_range(ks, flavour_of(o));
                break;
            }
            case cs::O_FIND: r.hit = box.find(o.k, peek, r.v); break;
            case cs::O_FINDUC: r.hit = box.find_uc(o.k, peek, r.v, r.uc); break;
            case cs::O_FINDR:
            case cs::O_FINDRF:
            {
                std::vector<int> ks;
                for (auto& e : o.elems)
                    ks.push_back(e.k);
                if (o.code == cs::O_FINDR)
                    box.find_range(ks, peek, flavour_of(o), r.fr);
                else
                    box.find_range_fill(ks, peek, flavour_of(o), r.fr);
                break;
            }
            case cs::O_CLEAN: r.n = box.clean(); break;
            case cs::O_AGE: r.n = box.age(); break;
            case cs::O_UTTL: box.update_ttl(o.ttl_ms); break;
            case cs::O_CLEAR: box.clear(); break;
            default: r.skipped = true; break;
        }
        return r;
    }

    // peek lookup that never disturbs recency / counts
    bool peek_find(bx::IBox& box, int k, uint64_t& v, size_t* uc = nullptr) const
    {
        if (caps.has_uc)
        {
            size_t u  = 0;
            bool   h  = box.find_uc(k, true, v, u);
            if (uc)
                *uc = u;
            return h;
        }
        return box.find(k, true, v);
    }
};
} // namespace ex
