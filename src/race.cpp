// E4: free-running threads under ThreadSanitizer (C07).  TSan's happens-before detector is the oracle:
// it reports two conflicting accesses with no synchronisation between them even when they did not
// overlap in time in this run.  The harness itself shares nothing but relaxed atomics between the
// worker threads (no mutex, no condition variable), so it cannot hide a race.
//
//   race pair --kind lru --types 0 --cap 3 --a insert --b size --seed 7 --iters 30
//   race prog --kind lru --types 0 --cap 3 --threads 3 --ops 30 --seed 7
//   race list --kind lru                      (prints the method names the kind supports)
#include "exec.hpp"
#include "values.hpp"
#include "vt.hpp"

#include <atomic>
#include <cstdio>
#include <cstring>
#include <string>
#include <thread>
#include <time.h>
#include <vector>

namespace
{
struct Rng
{
    uint64_t s;
    explicit Rng(uint64_t seed) : s(seed * 0x9E3779B97F4A7C15ull + 0x1234567ull) {}
    uint64_t next()
    {
        s ^= s << 13;
        s ^= s >> 7;
        s ^= s << 17;
        return s;
    }
    int in(int n) { return n <= 0 ? 0 : static_cast<int>(next() % static_cast<uint64_t>(n)); }
};

const char* kMethods[] = {"insert", "insert_range", "erase", "erase_range", "find", "find_range", "find_range_fill", "find_with_use_count",
                          "clean_expired_values", "dynamically_age", "update_ttl", "clear", "size", "empty", "capacity",
                          "insert_iter", "erase_iter", "find_iter", "find_range_fill_iter"};
constexpr int kNMethods = sizeof kMethods / sizeof kMethods[0];

bool method_supported(int m, const bx::Caps& c)
{
    switch (m)
    {
        case 7: return c.has_uc;
        case 8: return c.has_clean;
        case 9: return c.has_age;
        case 10: return c.has_update_ttl;
        case 11: return c.has_clear;
        case 14: return c.bounded;
        case 15:
        case 16:
        case 17:
        case 18: return c.fifo_iter;
        default: return true;
    }
}
int method_from(const std::string& s)
{
    for (int i = 0; i < kNMethods; ++i)
        if (s == kMethods[i])
            return i;
    return -1;
}

uint64_t mono_ns()
{
    timespec ts;
    clock_gettime(CLOCK_MONOTONIC, &ts);
    return static_cast<uint64_t>(ts.tv_sec) * 1000000000ull + static_cast<uint64_t>(ts.tv_nsec);
}

struct Runner
{
    bx::Config   cfg;
    bx::Caps     caps;
    int          uni;
    bx::IBox*    box;

    void call(int m, Rng& r, uint64_t& vseq, long& hits)
    {
        const int     k    = r.in(uni);
        const bool    peek = r.in(2) == 0;
        const int     al   = 1 + r.in(3);
        const int64_t ttl  = r.in(3) == 0 ? 0 : (r.in(2) ? 1000 : 5);
        uint64_t      v    = 0;
        size_t        uc   = 0;
        auto keys = [&](int maxn) {
            std::vector<int> ks;
            int              n = r.in(maxn + 1);
            if (cfg.cap >= 64 && r.in(3) == 0)
                n = 130 + r.in(100); // long ranges (chunked / size-dependent code paths)
            for (int i = 0; i < n; ++i)
                ks.push_back(r.in(uni));
            return ks;
        };
        auto kvs = [&](int maxn) {
            std::vector<bx::KV> e;
            int                 n = r.in(maxn + 1);
            if (cfg.cap >= 64 && r.in(3) == 0)
                n = 130 + r.in(100);
            for (int i = 0; i < n; ++i)
            {
                int kk = r.in(uni);
                e.push_back(bx::KV{kk, static_cast<uint64_t>(kk + 1) * 1000000ull + (vseq++ % 999983ull) + 1, ttl});
            }
            return e;
        };
        std::vector<bx::FindRes> fr;
        switch (m)
        {
            case 0: hits += box->insert(k, static_cast<uint64_t>(k + 1) * 1000000ull + (vseq++ % 999983ull) + 1, al, ttl); break;
            case 1: hits += static_cast<long>(box->insert_range(kvs(4), al, r.in(2))); break;
            case 2: hits += box->erase(k); break;
            case 3: hits += static_cast<long>(box->erase_range(keys(4), r.in(2))); break;
            case 4: hits += box->find(k, peek, v); break;
            case 5:
                box->find_range(keys(4), peek, r.in(2), fr);
                for (auto& f : fr)
                    hits += f.hit;
                break;
            case 6:
                box->find_range_fill(keys(4), peek, r.in(2), fr);
                for (auto& f : fr)
                    hits += f.hit;
                break;
            case 7: hits += box->find_uc(k, peek, v, uc); break;
            case 8: hits += static_cast<long>(box->clean()); break;
            case 9: hits += static_cast<long>(box->age()); break;
            case 10: box->update_ttl(r.in(2) ? 5 : 1000); break;
            case 11: box->clear(); break;
            case 12: hits += static_cast<long>(box->size() != 0); break;
            case 13: hits += box->empty(); break;
            case 14: hits += static_cast<long>(box->capacity() != 0); break;
            case 15: hits += static_cast<long>(box->insert_range(kvs(4), al, bx::F_ITER + r.in(2))); break;
            case 16: hits += static_cast<long>(box->erase_range(keys(4), bx::F_ITER + r.in(2))); break;
            case 17:
                box->find_range(keys(4), peek, bx::F_ITER + r.in(2), fr);
                break;
            case 18:
                box->find_range_fill(keys(4), peek, bx::F_ITER + r.in(2), fr);
                break;
            default: break;
        }
    }

    // sequential prefix: fill the container, expire part of it
    void prefix(Rng& r, uint64_t& vseq)
    {
        long h = 0;
        if (cfg.cap >= 64)
        {
            // a large population that expires all at once (batching / chunking code paths)
            for (int k = 0; k < uni; ++k)
                box->insert(k, static_cast<uint64_t>(k + 1) * 1000000ull + (vseq++) + 1, bx::A_BOTH, 3);
            vt::set(vt::now() + 6'000'000);
            return;
        }
        for (int k = 0; k < uni; ++k)
            if (r.in(4) != 0)
                box->insert(k, static_cast<uint64_t>(k + 1) * 1000000ull + (vseq++) + 1, bx::A_BOTH, r.in(2) ? 3 : 1000);
        vt::set(vt::now() + 3'000'000);
        for (int k = 0; k < uni; ++k)
            if (r.in(3) == 0)
                box->insert(k, static_cast<uint64_t>(k + 1) * 1000000ull + (vseq++) + 1, bx::A_BOTH, r.in(2) ? 3 : 1000);
        vt::set(vt::now() + 3'000'000); // entries written first with the short TTL are expired now
        for (int i = 0; i < 3; ++i)
            call(4, r, vseq, h);
    }
};
} // namespace

int main(int argc, char** argv)
{
    if (argc < 2)
        return 2;
    std::string cmd = argv[1];
    bx::Config  cfg;
    cfg.sync   = true;
    cfg.cap    = 3;
    cfg.ttl_ms = 5;
    std::string a = "insert", b = "find";
    uint64_t    seed = 1;
    int         iters = 30, nthreads = 3, nops = 30;
    for (int i = 2; i < argc; ++i)
    {
        std::string f   = argv[i];
        auto        nxt = [&]() -> std::string { return i + 1 < argc ? argv[++i] : ""; };
        if (f == "--kind")
            cfg.kind = bx::kind_from(nxt());
        else if (f == "--types")
            cfg.types = std::atoi(nxt().c_str());
        else if (f == "--cap")
            cfg.cap = static_cast<size_t>(std::atoi(nxt().c_str()));
        else if (f == "--a")
            a = nxt();
        else if (f == "--b")
            b = nxt();
        else if (f == "--seed")
            seed = std::strtoull(nxt().c_str(), nullptr, 10);
        else if (f == "--iters")
            iters = std::atoi(nxt().c_str());
        else if (f == "--threads")
            nthreads = std::atoi(nxt().c_str());
        else if (f == "--ops")
            nops = std::atoi(nxt().c_str());
        else if (f == "--sync")
            cfg.sync = std::atoi(nxt().c_str()) != 0;
    }
    if (cfg.kind < 0)
        return 2;
    bx::Caps caps = bx::caps_of(cfg.kind);
    if (cmd == "list")
    {
        for (int m = 0; m < kNMethods; ++m)
            if (method_supported(m, caps))
                std::printf("%s\n", kMethods[m]);
        return 0;
    }
    vt::reset(seed);
    cfg.seed = seed;
    if (cfg.cap >= 64)
        cfg.ttl_ms = 3;
    auto   box = bx::make_box(cfg);
    Runner R{cfg, caps, static_cast<int>(cfg.cap) + 2, box.get()};
    Rng      r0(seed);
    uint64_t vseq0 = 1;
    R.prefix(r0, vseq0);

    std::vector<std::vector<int>> programs;
    if (cmd == "pair")
    {
        int ma = method_from(a), mb = method_from(b);
        if (ma < 0 || mb < 0 || !method_supported(ma, caps) || !method_supported(mb, caps))
        {
            std::printf("UNSUPPORTED\n");
            return 0;
        }
        programs.push_back(std::vector<int>(static_cast<size_t>(iters), ma));
        programs.push_back(std::vector<int>(static_cast<size_t>(iters), mb));
    }
    else if (cmd == "prog")
    {
        std::vector<int> ok;
        for (int m = 0; m < kNMethods; ++m)
            if (method_supported(m, caps))
                ok.push_back(m);
        for (int t = 0; t < nthreads; ++t)
        {
            std::vector<int> p;
            for (int i = 0; i < nops; ++i)
                p.push_back(ok[static_cast<size_t>(r0.in(static_cast<int>(ok.size())))]);
            programs.push_back(p);
        }
    }
    else
        return 2;

    const size_t             T = programs.size();
    std::atomic<int>         ready{0};
    std::atomic<bool>        go{false};
    std::vector<uint64_t>    t_start(T), t_end(T);
    std::vector<long>        hits(T, 0);
    std::vector<std::thread> th;
    for (size_t t = 0; t < T; ++t)
        th.emplace_back([&, t]() {
            Rng      r(seed * 31 + t + 1);
            uint64_t vseq = 100000 * (t + 1);
            long     h    = 0;
            ready.fetch_add(1, std::memory_order_relaxed);
            while (!go.load(std::memory_order_relaxed))
            {
            }
            t_start[t] = mono_ns();
            for (int m : programs[t])
                R.call(m, r, vseq, h);
            t_end[t] = mono_ns();
            hits[t]  = h;
        });
    while (ready.load(std::memory_order_relaxed) < static_cast<int>(T))
    {
    }
    go.store(true, std::memory_order_relaxed);
    for (auto& t : th)
        t.join();
    bool overlap = true;
    for (size_t i = 0; i < T; ++i)
        for (size_t j = 0; j < T; ++j)
            if (i != j && (t_end[i] <= t_start[j]))
                overlap = false;
    long allhits = 0;
    for (long h : hits)
        allhits += h;
    std::printf("DONE overlap=%d hits=%ld size=%zu\n", overlap ? 1 : 0, allhits, box->size());
    return 0;
}
