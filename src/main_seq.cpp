// CLI of the sequential engine:
//   seq replay  --property Cxx --mode m [--strict-f8] file.case     run one case, print the verdict
//   seq gen     ... (rapidcheck driven; see gen_rc.cpp)
#include "engine.hpp"

#include <cstdio>
#include <cstring>
#include <fstream>
#include <iostream>
#include <sstream>

int gen_main(int argc, char** argv); // gen_rc.cpp

static std::string g_current_case_path;

int main(int argc, char** argv)
{
    if (argc < 2)
    {
        std::fprintf(stderr, "usage: seq replay|gen ...\n");
        return 2;
    }
    std::string cmd = argv[1];
    if (cmd == "gen")
        return gen_main(argc - 1, argv + 1);
    if (cmd == "decode")
    {
        // decode <bytes file> [forced kind]: the libFuzzer byte format -> canonical case text
        std::ifstream     in(argc > 2 ? argv[2] : "", std::ios::binary);
        std::stringstream ss;
        ss << in.rdbuf();
        std::string b = ss.str();
        cs::Case    c = cs::from_bytes(reinterpret_cast<const uint8_t*>(b.data()), b.size(), argc > 3 ? std::atoi(argv[3]) : -1);
        std::fputs(cs::to_text(c).c_str(), stdout);
        return 0;
    }
    if (cmd == "encode")
    {
        // encode <case file> <out file>: canonical text -> libFuzzer byte format (lossy where the byte format is coarser)
        std::ifstream     in(argc > 2 ? argv[2] : "");
        std::stringstream ss;
        ss << in.rdbuf();
        cs::Case c;
        if (!cs::from_text(ss.str(), c) || argc < 4)
            return 3;
        auto          b = cs::to_bytes(c);
        std::ofstream o(argv[3], std::ios::binary);
        o.write(reinterpret_cast<const char*>(b.data()), static_cast<std::streamsize>(b.size()));
        return 0;
    }
    if (cmd == "replay")
    {
        en::Options opt;
        std::string file;
        for (int i = 2; i < argc; ++i)
        {
            std::string a = argv[i];
            if (a == "--property" && i + 1 < argc)
                opt.property = argv[++i];
            else if (a == "--mode" && i + 1 < argc)
                opt.mode = argv[++i];
            else if (a == "--strict-f8")
                opt.strict_f8 = true;
            else
                file = a;
        }
        std::ifstream     in(file);
        std::stringstream ss;
        ss << in.rdbuf();
        cs::Case c;
        if (!cs::from_text(ss.str(), c))
        {
            std::printf("verdict 3\n");
            return 3;
        }
        en::Result r = en::run_case(c, opt);
        std::fputs(en::result_to_text(r).c_str(), stdout);
        return r.verdict;
    }
    return 2;
}
