#pragma once
#include "case.hpp"

#include <map>
#include <set>
#include <string>

namespace en
{
enum Verdict
{
    V_PASS      = 0,
    V_VIOLATION = 1, // a predicate tagged with the property under check failed
    V_FOREIGN   = 2, // a predicate of another property failed first; the case is abandoned
    V_INVALID   = 3
};

struct Result
{
    int                         verdict{V_PASS};
    std::string                 pred;  // name of the failing predicate
    std::string                 tags;  // comma separated properties the predicate belongs to
    std::string                 msg;   // human readable detail
    int                         step{-1};
    std::map<std::string, long> labels;
    bool                        nontrivial{false};
};

struct Options
{
    std::string property{"C01"};
    std::string mode{"model"}; // model | twin-range | twin-noop | twin-clear | stats-rr
    bool        strict_f8{false};
    bool        trace{false};
};

Result run_case(const cs::Case& c, const Options& opt);

std::string result_to_text(const Result& r);
} // namespace en

// C boundary used by the rapidcheck translation unit (which is built without _GLIBCXX_DEBUG)
extern "C" int verif_run_case_text(const char* text, const char* property, const char* mode, int strict_f8, char* out, unsigned long out_cap);
