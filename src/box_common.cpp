#include "box.hpp"
#include "values.hpp"

namespace bx
{
#define VERIF_DECL(n) std::unique_ptr<IBox> make_box_kind_##n(const Config& c);
VERIF_DECL(0)
VERIF_DECL(1)
VERIF_DECL(2)
VERIF_DECL(3)
VERIF_DECL(4)
VERIF_DECL(5)
VERIF_DECL(6)
VERIF_DECL(7)
VERIF_DECL(8)
VERIF_DECL(9)

std::unique_ptr<IBox> make_box(const Config& c)
{
    switch (c.kind)
    {
        case 0: return make_box_kind_0(c);
        case 1: return make_box_kind_1(c);
        case 2: return make_box_kind_2(c);
        case 3: return make_box_kind_3(c);
        case 4: return make_box_kind_4(c);
        case 5: return make_box_kind_5(c);
        case 6: return make_box_kind_6(c);
        case 7: return make_box_kind_7(c);
        case 8: return make_box_kind_8(c);
        case 9: return make_box_kind_9(c);
    }
    return nullptr;
}

Caps caps_of(int kind)
{
    Caps c;
    switch (kind)
    {
        case K_LRU:
        case K_MRU: c.has_peek = true; break;
        case K_FIFO: c.fifo_iter = true; break;
        case K_LFU:
            c.has_peek = true;
            c.has_uc   = true;
            break;
        case K_LFUDA:
            c.has_peek = true;
            c.has_uc   = true;
            c.has_age  = true;
            break;
        case K_RR: break;
        case K_TLRU:
            c.has_peek     = true;
            c.has_clean    = true;
            c.per_call_ttl = true;
            break;
        case K_UTLRU:
            c.has_peek       = true;
            c.has_clean      = true;
            c.uniform_ttl    = true;
            c.has_update_ttl = true;
            c.has_clear      = true;
            break;
        case K_UTMAP:
            c.has_clean   = true;
            c.uniform_ttl = true;
            c.has_clear   = true;
            c.bounded     = false;
            break;
        case K_UTSET:
            c.has_clean   = true;
            c.uniform_ttl = true;
            c.bounded     = false;
            c.is_set      = true;
            break;
    }
    return c;
}

bool key_less(int types, int a, int b)
{
    if (types == T_STRING)
        return vv::str_key(a) < vv::str_key(b);
    return vv::u64_key(a) < vv::u64_key(b);
}
} // namespace bx
