// E1: the sequential engine.  run_case() applies one case to the real container(s) and decides it
// against an explicit oracle: the reference model (mode "model"), or a twin instance driven with a
// related history (modes "twin-range", "twin-noop", "twin-clear"), or a histogram ("stats-rr").
#include "engine.hpp"
#include "exec.hpp"
#include "model.hpp"
#include "values.hpp"
#include "vt.hpp"

#include <algorithm>
#include <cmath>
#include <cstring>
#include <functional>
#include <sstream>

namespace en
{
namespace
{
using bx::FindRes;
using cs::Op;
using ex::EffElem;
using ex::key_of_value;
using ex::Outcome;
using ex::value_for;

struct Stop
{
};

struct Ctx : ex::Exec
{
    const cs::Case& c;
    const Options&  opt;
    Result          res;

    Ctx(const cs::Case& cc, const Options& o) : ex::Exec(cc.cfg), c(cc), opt(o) {}

    void label(const std::string& k, long d = 1) { res.labels[k] += d; }

    [[noreturn]] void fail(int step, const std::string& tags, const std::string& pred, const std::string& msg)
    {
        bool mine = false;
        {
            std::istringstream ts(tags);
            std::string        t;
            while (std::getline(ts, t, ','))
                if (t == opt.property)
                    mine = true;
        }
        res.verdict = mine ? V_VIOLATION : V_FOREIGN;
        res.pred    = pred;
        res.tags    = tags;
        res.msg     = msg;
        res.step    = step;
        throw Stop{};
    }

};

std::string policy_tag(const md::Model& M)
{
    switch (M.kind)
    {
        case bx::K_LRU:
        case bx::K_TLRU:
        case bx::K_UTLRU: return "C10";
        case bx::K_MRU: return "C13";
        case bx::K_FIFO: return "C12";
        case bx::K_LFU: return "C11";
        case bx::K_LFUDA: return M.aged_ever ? "C14" : "C14,C11";
        case bx::K_RR: return "C15";
    }
    return "C03";
}
std::string count_tag(const md::Model& M) { return M.kind == bx::K_LFU ? "C11" : (M.aged_ever ? "C14" : "C14,C11"); }

// ================================================================================================
// model mode
// ================================================================================================
struct ObservedChooser : md::Chooser
{
    bool             result{false};
    int              lost_key{-1};
    bool             asked_victim{false};
    bool             policy_ok{true};
    std::vector<int> cands;
    bool             zombie_update() override { return result; }
    bool             doa_insert() override { return result; }
    int              victim(const std::vector<int>& c) override
    {
        asked_victim = true;
        cands        = c;
        if (lost_key >= 0)
        {
            policy_ok = std::find(c.begin(), c.end(), lost_key) != c.end();
            return lost_key;
        }
        return c.empty() ? -1 : c[0];
    }
};

struct EnumChooser : md::Chooser
{
    std::vector<int> choices, limits;
    size_t           pos{0};
    int              f8_dev{0};
    int              pick(int n)
    {
        if (n <= 1)
            return 0;
        if (pos == choices.size())
        {
            choices.push_back(0);
            limits.push_back(n);
        }
        return choices[pos++];
    }
    bool zombie_update() override { return pick(2) == 1; }
    bool doa_insert() override
    {
        bool ok = pick(2) == 0;
        if (!ok)
            ++f8_dev;
        return ok;
    }
    int victim(const std::vector<int>& c) override { return c.empty() ? -1 : c[static_cast<size_t>(pick(static_cast<int>(c.size())))]; }
    bool next()
    {
        while (!choices.empty() && choices.back() + 1 >= limits.back())
        {
            choices.pop_back();
            limits.pop_back();
        }
        if (choices.empty())
            return false;
        ++choices.back();
        pos    = 0;
        f8_dev = 0;
        return true;
    }
    void rewind()
    {
        pos    = 0;
        f8_dev = 0;
    }
};

struct ModelRun
{
    Ctx&                      x;
    std::unique_ptr<bx::IBox> box;
    md::Model                 M;
    int                       step{0};
    bool                      since_adv{false};
    // label bookkeeping
    std::set<int> prior_erased, prior_evicted, prior_expired; // keys with a history
    bool          was_full{false};
    bool          erase_after_full{false};
    long          size_prev{0};
    bool          size_decreased{false};
    int           evictions_in_case{0};
    std::map<int, int> slot_recycles; // proxy: per-case count of (removal -> creation) alternations
    int           removals{0};
    int           creations_after_removal{0};
    int           last_use_src{0}; // 1 update, 2 range lookup (for the entry that made LRU != FIFO)
    std::map<int, int> use_src;    // key -> source of its latest use (0 insert, 1 update, 2 single lookup, 3 range lookup)
    bool          mid_erase_refill{false};
    std::set<int> fifo_touched_oldest;

    explicit ModelRun(Ctx& cx) : x(cx)
    {
        M.init(x.c.cfg);
        M.f8_exclusion = !x.opt.strict_f8;
        vt::g_rd_calls.store(0);
        box = bx::make_box(x.c.cfg);
    }

    std::vector<int> live_keys() const
    {
        std::vector<int> v;
        for (auto& [k, e] : M.live)
        {
            (void)e;
            v.push_back(k);
        }
        return v;
    }

    std::string kstr(const std::vector<int>& v) const
    {
        std::ostringstream s;
        s << "{";
        for (int k : v)
            s << k << " ";
        s << "}";
        return s.str();
    }

    // ---- observers / invariants (C02) --------------------------------------------------------
    struct Obs
    {
        size_t s;
        bool   em;
        size_t cp;
    };
    Obs observe()
    {
        Obs a{box->size(), box->empty(), M.bounded() ? box->capacity() : 0};
        if (shadow)
        {
            Obs b{shadow->size(), shadow->empty(), M.bounded() ? shadow->capacity() : 0};
            const bool f8_sizes = M.utx() && x.c.cfg.ttl_ms == 0; // F8: dead-on-arrival entries are counted until the next call
            // sizes may differ only through expired entries: spliced no-effect calls may reap them (C19), and ut_map/ut_set
            // purge once per call, so a range call and its singles (or an empty range) reap at different moments
            const bool lenient  = (twin_mode == "twin-noop" && M.ttl_kind()) || (twin_mode == "twin-range" && M.utx()) || f8_sizes;
            if (!lenient && (a.s != b.s || a.em != b.em))
                x.fail(step, twin_tag, "twin_size_differs",
                       "size()/empty() of the two instances differ: " + std::to_string(a.s) + "/" + std::to_string(a.em) + " vs " + std::to_string(b.s) + "/" +
                           std::to_string(b.em));
            shadow_obs       = b;
            shadow_obs_valid = lenient;
            if (a.cp != b.cp)
                x.fail(step, twin_tag, "twin_capacity_differs", "capacity() differs");
        }
        return a;
    }

    // ---- twin support --------------------------------------------------------------------------
    std::unique_ptr<bx::IBox> shadow;      // second real instance (twin modes)
    std::string               twin_mode;   // "", twin-range, twin-noop, twin-clear
    std::string               twin_tag;    // property the twin comparison belongs to
    int                       clear_at{-1};
    long                      splices_done{0};
    bool                      after_clear{false};

    // auxiliary peek lookup; mirrored on the second instance and compared
    bool pfind(int k, uint64_t& v, size_t* uc = nullptr)
    {
        size_t ua = 0;
        bool   ha = x.peek_find(*box, k, v, &ua);
        if (uc)
            *uc = ua;
        if (shadow)
        {
            uint64_t vb = 0;
            size_t   ub = 0;
            bool     hb = x.peek_find(*shadow, k, vb, &ub);
            if (ha != hb || (ha && !x.caps.is_set && v != vb) || (ha && x.caps.has_uc && ua != ub))
                x.fail(step, twin_tag, "twin_peek_differs",
                       "peek lookup of key " + std::to_string(k) + ": first instance " + (ha ? "hit value " + std::to_string(v) + " uses " + std::to_string(ua) : std::string("miss")) +
                           ", second instance " + (hb ? "hit value " + std::to_string(vb) + " uses " + std::to_string(ub) : std::string("miss")));
        }
        return ha;
    }

    std::set<int> ZB;                  // keys that may be expired-and-resident in the second instance (superset)
    bool          shadow_called{false}; // the second instance made at least one container call since the last check
    Obs  shadow_obs{0, true, 0};
    bool shadow_obs_valid{false};
    bool compare_excluded{false}; // set by the caller when the statement excludes this op's result from the comparison

    const uint64_t* value_override{nullptr}; // set by do_insert for same-value writes

    Outcome main_exec(const Op& o)
    {
        Outcome r = x.exec(*box, o, step, value_override);
        if (!shadow)
            return r;
        shadow_called = true;
        const bool is_range = o.code == cs::O_INSR || o.code == cs::O_ERAR || o.code == cs::O_FINDR || o.code == cs::O_FINDRF;
        if (twin_mode == "twin-range" && is_range)
        {
            auto el = x.effective(o);
            shadow_called = !el.empty();
            std::ostringstream d;
            d << cs::op_name(o.code) << "(flavour " << x.flavour_of(o) << ", keys";
            for (auto& e : el)
                d << " " << e.k;
            d << ")";
            std::set<int> ks;
            bool          dup = false;
            for (auto& e : el)
                if (!ks.insert(e.k).second)
                    dup = true;
            if (o.code == cs::O_INSR)
            {
                size_t n = 0;
                for (auto& e : el)
                    if (shadow->insert(e.k, value_for(e.k, step, e.orig), o.allow, e.ttl_ms))
                        ++n;
                if (M.utx() && x.c.cfg.ttl_ms == 0 && dup && !x.opt.strict_f8)
                    x.label("excluded_known_F8_C18");
                else if (n != r.n)
                    x.fail(step, twin_tag, "range_insert_count_vs_singles",
                           (M.utx() && x.c.cfg.ttl_ms == 0 ? "F8 " : "") + d.str() + " returned " + std::to_string(r.n) + " but the same single inserts succeeded " + std::to_string(n) + " times");
                if (n > 0 && n < el.size())
                    x.label("twin_range_mixed_success");
            }
            else if (o.code == cs::O_ERAR)
            {
                size_t n = 0;
                for (auto& e : el)
                    if (shadow->erase(e.k))
                        ++n;
                if (n != r.n)
                    x.fail(step, twin_tag, "range_erase_count_vs_singles",
                           d.str() + " returned " + std::to_string(r.n) + " but the same single erases succeeded " + std::to_string(n) + " times");
                if (n > 0 && n < el.size())
                    x.label("twin_range_mixed_success");
            }
            else
            {
                if (r.fr.size() != el.size())
                    x.fail(step, twin_tag, "find_range_one_result_per_key", d.str() + " returned " + std::to_string(r.fr.size()) + " results for " + std::to_string(el.size()) + " keys");
                const bool peek = x.caps.has_peek ? o.peek : false;
                size_t     hits = 0;
                for (size_t i = 0; i < el.size(); ++i)
                {
                    uint64_t v = 0;
                    bool     h = shadow->find(el[i].k, peek, v);
                    if (h)
                        ++hits;
                    if (r.fr[i].k != el[i].k)
                        x.fail(step, twin_tag, "find_range_order", d.str() + ": result " + std::to_string(i) + " is not reported for input key " + std::to_string(el[i].k));
                    if (r.fr[i].hit != h || (h && !x.caps.is_set && r.fr[i].v != v))
                        x.fail(step, twin_tag, "range_lookup_vs_singles",
                               d.str() + ": element " + std::to_string(i) + " (key " + std::to_string(el[i].k) + ") range says " +
                                   (r.fr[i].hit ? std::to_string(r.fr[i].v) : std::string("miss")) + ", single lookup says " + (h ? std::to_string(v) : std::string("miss")));
                }
                if (hits > 0 && hits < el.size())
                    x.label("twin_range_mixed_success");
            }
            if (dup)
                x.label("twin_range_with_duplicate");
            x.label("twin_range_calls");
            return r;
        }
        const size_t sb0 = shadow->size();
        Outcome      rb  = x.exec(*shadow, o, step, value_override);
        const bool f8_range = twin_mode == "twin-range" && M.utx() && x.c.cfg.ttl_ms == 0 && !x.opt.strict_f8;
        if ((twin_mode == "twin-noop" && M.ttl_kind()) || f8_range)
        {
            // what the statement allows to differ: results of an erase addressed to an expired key, and the size-derived clean count.
            // (F8: at uniform TTL 0 a range call leaves all its dead-on-arrival entries resident, the singles only the last one)
            if (o.code == cs::O_CLEAN)
            {
                if (f8_range && r.n != rb.n)
                    x.label("excluded_known_F8_C18");
                if (!rb.skipped && sb0 - rb.n != M.live.size())
                    x.fail(step, twin_tag + ",C17", "twin_clean_count",
                           "second instance: size before " + std::to_string(sb0) + " - returned " + std::to_string(rb.n) + " != live " + std::to_string(M.live.size()));
                return r;
            }
            if (compare_excluded)
            {
                x.label("excluded_by_statement");
                return r;
            }
        }
        if (!r.same(rb))
            x.fail(step, twin_tag, "twin_result_differs", std::string(cs::op_name(o.code)) + ": first instance " + r.str() + ", second instance " + rb.str());
        return r;
    }

    void invariants(bool after_call, const Obs& ob)
    {
        const size_t s       = ob.s;
        const bool   em      = ob.em;
        const int    doa_now = M.utx() ? static_cast<int>(M.Z.size()) : 0;
        if (em != (s == 0))
            x.fail(step, "C02", "empty_iff_size0", "empty()=" + std::to_string(em) + " size()=" + std::to_string(s));
        if (M.bounded())
        {
            const size_t cp = ob.cp;
            if (cp != M.cap)
                x.fail(step, "C02", "capacity_constant", "capacity()=" + std::to_string(cp) + " constructed with " + std::to_string(M.cap));
            if (s > M.cap)
                x.fail(step, "C02", "size_le_capacity", "size()=" + std::to_string(s) + " capacity=" + std::to_string(M.cap));
        }
        const size_t nl = M.live.size();
        if (shadow && shadow_obs_valid)
        {
            // the second instance on its own: live <= size <= live + expired-not-removed, within capacity, empty() consistent
            const Obs& b = shadow_obs;
            if (M.utx() && shadow_called)
                ZB.clear(); // its purge at the start of the call removed everything expired before the call
            for (int k : M.Z)
                ZB.insert(k);
            for (auto& [k, e] : M.live)
            {
                (void)e;
                ZB.erase(k);
            }
            if (b.s < nl || b.s > nl + ZB.size() || (M.bounded() && b.s > M.cap) || b.em != (b.s == 0))
                x.fail(step, twin_tag + ",C02", "twin_size_bounds",
                       "second instance: size()=" + std::to_string(b.s) + " live=" + std::to_string(nl) + " expired-not-removed<=" + std::to_string(ZB.size()));
            shadow_obs_valid = false;
            shadow_called    = false;
        }
        if (!M.ttl_kind())
        {
            if (s != nl)
                x.fail(step, "C02", "size_eq_live", "size()=" + std::to_string(s) + " but " + std::to_string(nl) + " keys are findable");
        }
        else
        {
            if (M.utx() && after_call)
            {
                // C17: the purge at the start of the call removed everything that was expired then
                // (an entry written dead by this very call may or may not be kept: an interval, not an equality)
                if (s < nl || s > nl + static_cast<size_t>(doa_now))
                    x.fail(step, "C17,C02", "utx_purge_at_call_start",
                           "size()=" + std::to_string(s) + " live=" + std::to_string(nl) + " written-dead-by-this-call=" + std::to_string(doa_now));
                if (s != nl)
                {
                    // C02: "immediately after any insert, erase, lookup or clean call size() equals the number of live keys"
                    if (M.f8_exclusion && x.c.cfg.ttl_ms == 0)
                        x.label("excluded_known_F8_C02");
                    else
                        x.fail(step, "C02", "utx_size_eq_live_after_call",
                               "F8 size()=" + std::to_string(s) + " live=" + std::to_string(nl) + " (entry expired at its own write instant is counted)");
                }
            }
            if (s < nl)
                x.fail(step, "C02", "size_ge_live", "size()=" + std::to_string(s) + " < live keys " + std::to_string(nl));
            if (s > nl + M.Z.size())
                x.fail(step, "C02", "size_le_live_plus_expired",
                       "size()=" + std::to_string(s) + " > live " + std::to_string(nl) + " + expired-not-removed " + std::to_string(M.Z.size()));
            if (s == nl)
                M.Z.clear();
            if (s > nl)
                x.label("steps_with_resident_expired");
        }
        // label support
        if (static_cast<long>(s) < size_prev)
            size_decreased = true;
        if (static_cast<long>(s) > size_prev && size_decreased)
            x.label("size_dec_then_inc");
        if (M.bounded() && s == M.cap)
        {
            x.label("steps_at_capacity");
            was_full = true;
        }
        size_prev = static_cast<long>(s);
    }

    // ---- scans -------------------------------------------------------------------------------
    // mode 0: live keys; 1: live + absent; 2: + expired-not-removed (they must miss: C04)
    int scan_cursor{0};

    // `full` = every key of the universe; otherwise, for universes above 48 keys, a rotating window of 24 keys
    // (large universes would otherwise make every step cost hundreds of lookups; explicit `scan` operations, the scan after
    // clean_expired_values() and the final scan are always full)
    bool scan(int mode, const std::string& miss_tags, bool full = false)
    {
        bool                looked = false;
        const std::set<int> z0     = M.Z; // statuses as of the start of the scan
        auto                first  = [&]() {
            if (!looked)
                M.call_start_purge(); // ut_map / ut_set: the first lookup of the scan purges
            looked = true;
        };
        const bool windowed = !full && x.c.uni > 48;
        const int  count    = windowed ? 24 : x.c.uni;
        const int  start    = windowed ? scan_cursor : 0;
        if (windowed)
            scan_cursor = (scan_cursor + 24) % x.c.uni;
        for (int i = 0; i < count; ++i)
        {
            const int k  = (start + i) % x.c.uni;
            auto      it = M.live.find(k);
            if (it != M.live.end())
            {
                uint64_t v  = 0;
                size_t   uc = 0;
                first();
                bool h = pfind(k, v, &uc);
                if (!h)
                    x.fail(step, miss_tags, "live_key_missing", "key " + std::to_string(k) + " should be found (peek) but is not");
                if (!x.caps.is_set && v != it->second.val)
                    x.fail(step, "C01", "stale_or_foreign_value",
                           "key " + std::to_string(k) + " returned " + std::to_string(v) + " (a value written for key " + std::to_string(key_of_value(v)) +
                               "), expected " + std::to_string(it->second.val));
                if (x.caps.has_uc && uc != it->second.count)
                    x.fail(step, count_tag(M), "use_count",
                           "key " + std::to_string(k) + " use count " + std::to_string(uc) + " expected " + std::to_string(it->second.count));
                x.label("checked_hits");
                if (creations_after_removal > 0)
                    x.label("checked_hits_after_recycle");
            }
            else if (z0.count(k))
            {
                if (mode >= 2)
                {
                    uint64_t v = 0;
                    first();
                    bool h = pfind(k, v);
                    probe_zombie_labels(k);
                    if (h)
                        x.fail(step, "C04,C01", "expired_entry_served", "key " + std::to_string(k) + " expired but was returned (value " + std::to_string(v) + ")");
                }
            }
            else if (mode >= 1)
            {
                uint64_t v = 0;
                first();
                bool h = pfind(k, v);
                if (h)
                    x.fail(step, M.dead.count(k) ? "C04,C17,C01" : "C01", M.dead.count(k) ? "expired_entry_served" : "absent_key_found",
                           "key " + std::to_string(k) + " must be absent but returned " + std::to_string(v) + " (a value written for key " +
                               std::to_string(key_of_value(v)) + ")");
                x.label("checked_absent");
            }
        }
        if (looked)
            since_adv = false;
        return looked;
    }

    std::map<int, int64_t> zombie_deadline; // label support: deadline with which a key expired
    std::map<int, int>     zombie_flags;    // 1 moved deadline, 2 written after update_ttl
    void note_expired()
    {
        // remember the deadlines of entries that are about to become zombies (labels only)
        const int64_t now = vt::now();
        for (auto& [k, e] : M.live)
            if (M.ttl_kind() && e.deadline <= now)
            {
                ZB.insert(k);
                zombie_deadline[k] = e.deadline;
                zombie_flags[k]    = (e.moved_deadline ? 1 : 0) | (e.written_after_uttl ? 2 : 0);
                prior_expired.insert(k);
            }
    }
    void probe_zombie_labels(int k)
    {
        x.label("zombie_probes");
        auto it = zombie_deadline.find(k);
        if (it != zombie_deadline.end())
        {
            if (it->second == vt::now())
                x.label("zombie_probes_at_exact_deadline");
            if (zombie_flags[k] & 1)
                x.label("zombie_probes_moved_deadline");
            if (zombie_flags[k] & 2)
                x.label("zombie_probes_after_update_ttl");
        }
    }

    // ---- single lookups ------------------------------------------------------------------------
    // applies the lookup rule for one key given what the container reported
    void lookup_rule(int k, bool peek, bool hit, uint64_t v, bool have_uc, size_t uc, const char* what, int use_source)
    {
        const int64_t now = vt::now();
        auto          it  = M.live.find(k);
        if (it != M.live.end())
        {
            if (!hit)
                x.fail(step, M.ttl_kind() ? "C05,C03" : "C03", "live_key_lookup_missed", std::string(what) + " of live key " + std::to_string(k) + " missed");
            if (!x.caps.is_set && v != it->second.val)
                x.fail(step, "C01", "stale_or_foreign_value",
                       std::string(what) + " key " + std::to_string(k) + " returned " + std::to_string(v) + " (a value written for key " +
                           std::to_string(key_of_value(v)) + "), expected " + std::to_string(it->second.val));
            if (M.ttl_kind())
            {
                int64_t left = it->second.deadline - now;
                if (left > 0 && left <= 1'000'000)
                    x.label("hits_within_1ms_of_deadline");
                if (left == 1)
                    x.label("hits_1ns_before_deadline");
            }
            const bool counts = x.caps.has_peek ? !peek : false; // kinds without a peek argument have no recency / counts
            if (counts)
            {
                M.touch(it->second, now);
                use_src[k] = use_source;
            }
            if (have_uc && uc != it->second.count)
                x.fail(step, count_tag(M), "find_with_use_count",
                       "key " + std::to_string(k) + " reported use count " + std::to_string(uc) + " expected " + std::to_string(it->second.count));
            x.label("lookup_hits");
            if (creations_after_removal > 0)
                x.label("checked_hits_after_recycle");
            if (M.kind == bx::K_FIFO && !M.live.empty())
            {
                auto cands = M.victim_candidates();
                if (!cands.empty() && cands[0] == k)
                    fifo_touched_oldest.insert(k);
            }
        }
        else if (M.Z.count(k))
        {
            probe_zombie_labels(k);
            if (hit)
                x.fail(step, "C04,C01", "expired_entry_served",
                       std::string(what) + " key " + std::to_string(k) + " expired at or before now but was returned (value " + std::to_string(v) + ")");
        }
        else
        {
            if (hit)
                x.fail(step, M.dead.count(k) ? "C04,C17,C01" : "C01", M.dead.count(k) ? "expired_entry_served" : "absent_key_found",
                       std::string(what) + " key " + std::to_string(k) + " must be absent but returned " + std::to_string(v) + " (a value written for key " +
                           std::to_string(key_of_value(v)) + ")");
            x.label("lookup_misses");
        }
    }

    // ---- single insert -------------------------------------------------------------------------
    void note_history_labels(int k, bool accepted)
    {
        const bool prior = prior_erased.count(k) || prior_evicted.count(k) || prior_expired.count(k);
        if (prior)
            x.label(accepted ? "accepted_with_prior_history" : "rejected_with_prior_history");
        x.label(accepted ? "inserts_accepted" : "inserts_rejected");
    }

    void eviction_labels(const md::Model& before, int victim, int new_key)
    {
        ++evictions_in_case;
        x.label("evictions");
        if (splices_done > 0)
            x.label("evictions_after_splice");
        if (after_clear)
            x.label("evictions_after_clear");
        if (evictions_in_case == 2)
            x.label("cases_with_chained_evictions");
        prior_evicted.insert(victim);
        ++removals;
        (void)new_key;
        // victim is not the earliest-inserted resident -> the policy is distinguishable from FIFO
        uint64_t min_ins = UINT64_MAX;
        int      oldest  = -1;
        uint64_t max_ins = 0;
        int      newest  = -1;
        for (auto& [k, e] : before.live)
        {
            if (e.ins < min_ins)
            {
                min_ins = e.ins;
                oldest  = k;
            }
            if (e.ins > max_ins)
            {
                max_ins = e.ins;
                newest  = k;
            }
        }
        if (victim != oldest)
            x.label("evict_victim_not_oldest_inserted");
        if (victim != newest)
            x.label("evict_victim_not_newest_inserted");
        // recency that came from an update / a range lookup made the difference
        for (auto& [k, src] : use_src)
            if (before.live.count(k) && k != victim)
            {
                if (src == 1)
                    x.label("evict_with_recency_from_update");
                if (src == 3)
                    x.label("evict_with_recency_from_range_lookup");
            }
        if (M.kind == bx::K_LFU || M.kind == bx::K_LFUDA)
        {
            uint64_t mn = UINT64_MAX, mx = 0;
            int      nmin = 0;
            for (auto& [k, e] : before.live)
            {
                (void)k;
                mn = std::min(mn, e.count);
                mx = std::max(mx, e.count);
            }
            for (auto& [k, e] : before.live)
            {
                (void)k;
                if (e.count == mn)
                    ++nmin;
            }
            if (mn != mx)
                x.label("evict_with_nonuniform_counts");
            if (nmin > 1)
                x.label("evict_with_tie");
        }
        if (M.kind == bx::K_FIFO)
        {
            if (mid_erase_refill)
                x.label("fifo_evict_after_mid_erase_refill");
            if (fifo_touched_oldest.count(victim))
                x.label("fifo_evict_after_oldest_touched");
        }
    }

    void do_insert(const Op& o)
    {
        const int64_t now = vt::now();
        M.call_start_purge();
        const size_t     s0 = box->size();
        std::vector<int> L0 = live_keys();
        const int64_t    ttl = o.ttl_ms;
        const bool       k_live = M.live.count(o.k) != 0, k_zombie = M.Z.count(o.k) != 0;
        // a write may repeat the value the key already holds (code that compares old and new value)
        const bool       same_value = o.same && k_live && !x.caps.is_set;
        const uint64_t   v   = same_value ? M.live.at(o.k).val : value_for(o.k, step, 0);
        if (same_value)
            x.label("writes_of_the_same_value");
        const size_t     nz0 = s0 >= L0.size() ? s0 - L0.size() : 0;

        value_override = same_value ? &v : nullptr;
        const bool r  = main_exec(o).b;
        value_override = nullptr;
        const Obs  ob1 = observe();
        const size_t s1 = ob1.s;

        // which previously live keys are gone?
        std::vector<int> lost;
        // (ut_map/ut_set never evict: with many live keys only a rotating sample is re-checked here, the windowed scans cover the rest)
        const bool sample = !M.bounded() && L0.size() > 48;
        size_t     idx    = 0;
        for (int k : L0)
        {
            ++idx;
            if (k == o.k)
                continue;
            if (sample && (idx + static_cast<size_t>(step)) % 8 != 0)
                continue;
            uint64_t pv = 0;
            if (!pfind(k, pv))
                lost.push_back(k);
        }

        md::Model       N = M;
        ObservedChooser ch;
        ch.result   = r;
        ch.lost_key = lost.size() == 1 ? lost[0] : -1;
        md::InsertEffect fx = N.insert_rule(now, o.k, v, o.allow, ttl, ch);

        if (fx.result != r)
        {
            std::string st = k_live ? "live" : k_zombie ? "expired-not-removed" : "absent";
            x.fail(step, "C09", "insert_result",
                   "insert(key " + std::to_string(o.k) + ", allow=" + std::to_string(o.allow) + ") on a " + st + " key returned " + std::to_string(r) +
                       ", expected " + std::to_string(fx.result));
        }
        if (!r)
        {
            if (!lost.empty())
                x.fail(step, "C03,C09,C19", "rejected_insert_lost_entries", "rejected insert removed live keys " + kstr(lost));
            if (!k_live)
            {
                // C09: allow::update never creates an entry for an absent key
                uint64_t pv = 0;
                if (!k_zombie && pfind(o.k, pv))
                    x.fail(step, "C09", "update_created_entry", "allow::update on absent key " + std::to_string(o.k) + " created an entry");
            }
            if (!M.ttl_kind() && s1 != s0)
                x.fail(step, "C02,C09", "rejected_insert_changed_size", "size " + std::to_string(s0) + " -> " + std::to_string(s1));
        }
        else if (fx.evicted)
        {
            const std::string t = M.kind == bx::K_RR ? "C03,C15" : "C03";
            if (lost.size() != 1)
                x.fail(step, t, "full_insert_one_victim",
                       "insert of new key " + std::to_string(o.k) + " into a cache holding " + std::to_string(L0.size()) + "=capacity live entries removed " +
                           std::to_string(lost.size()) + " entries " + kstr(lost) + ", expected exactly 1");
            if (s1 != M.cap)
                x.fail(step, t + ",C02", "full_insert_size_stays_at_capacity", "size() after = " + std::to_string(s1) + " capacity " + std::to_string(M.cap));
            if (!ch.policy_ok)
                x.fail(step, policy_tag(N), "victim_policy",
                       "evicted key " + std::to_string(lost[0]) + " but the policy permits only " + kstr(ch.cands) + " (live before: " + kstr(L0) + ")");
            eviction_labels(M, lost[0], o.k);
            x.label("inserts_into_full");
        }
        else
        {
            if (!lost.empty())
            {
                // a live TTL entry that goes away before its deadline without a C03 reason also "expired early" (C05)
                std::string t = M.ttl_kind() ? "C03,C05" : "C03";
                if (M.ttl_kind() && M.bounded() && s0 == M.cap)
                    t = "C16,C03,C05";
                else if (M.kind == bx::K_RR)
                    t = "C03,C15";
                x.fail(step, t, "insert_lost_live_entries",
                       "insert(key " + std::to_string(o.k) + ") with " + std::to_string(L0.size()) + " live of capacity " +
                           (M.bounded() ? std::to_string(M.cap) : std::string("inf")) + " (size before " + std::to_string(s0) + ") removed live keys " + kstr(lost));
            }
            if (fx.created && M.bounded() && s0 == M.cap && nz0 >= 1)
            {
                x.label("inserts_into_full_with_expired_resident");
                // was the expired entry NOT the least recently used one? (otherwise plain LRU would pass)
                if (!M.live.empty())
                    x.label("inserts_into_full_with_expired_and_live");
            }
            if (fx.created && was_full && s0 < M.cap && erase_after_full)
                x.label("inserts_into_free_slot_after_erase_on_full");
        }
        if (fx.created)
        {
            if (removals > 0)
            {
                ++creations_after_removal;
                x.label("slot_recycles");
            }
            if (M.kind == bx::K_FIFO && removals > 0)
                mid_erase_refill = mid_erase_refill || erase_mid_seen;
            use_src[o.k] = 0;
        }
        if (fx.updated)
        {
            use_src[o.k] = 1;
            if (M.ttl_kind())
                x.label("writes_moving_a_deadline");
            if (M.kind == bx::K_FIFO)
            {
                auto cands = M.victim_candidates();
                if (!cands.empty() && cands[0] == o.k)
                    fifo_touched_oldest.insert(o.k);
            }
        }
        if (fx.was_zombie && r)
            x.label("writes_over_expired_entry");
        if (fx.doa)
            x.label("writes_dead_on_arrival");
        if (fx.doa && r && fx.updated && x.opt.property == "C09")
        {
            // only in the C09 check (the probe reaps the dead entry, which other profiles want to keep resident):
            // the call reported a write; the entry it replaced must be gone, the new one is dead on arrival
            uint64_t pv = 0;
            if (pfind(o.k, pv))
                x.fail(step, "C09,C04", "reported_write_not_applied",
                       "insert(key " + std::to_string(o.k) + ") returned true with a TTL that expires at once, but the key still serves value " + std::to_string(pv));
        }
        note_history_labels(o.k, r);
        M = N;
        invariants(true, ob1);
    }
    bool erase_mid_seen{false};

    // ---- range insert: enumerate what the singles could have produced ----------------------------
    struct Cand
    {
        md::Model m;
        size_t    count{0};
        int       f8_dev{0};
        int       doa{0};
        int       evictions{0};
    };

    std::vector<Cand> expand(const md::Model& start, const std::vector<EffElem>& el, int op_idx, int allow, bool any_policy, bool& overflow)
    {
        const int64_t     now = vt::now();
        std::vector<Cand> frontier;
        Cand              c0;
        c0.m                   = start;
        c0.m.any_victim_policy = any_policy;
        frontier.push_back(c0);
        long slow_steps = 0;
        for (auto& e : el)
        {
            std::vector<Cand>     next;
            std::set<std::string> seen;
            // fast path: one candidate and an element that cannot branch (no eviction choice, no expired key addressed):
            // apply it in place instead of copying the whole model per element (ranges of a thousand elements)
            if (frontier.size() == 1)
            {
                Cand&      cd      = frontier[0];
                const bool may_evict = cd.m.bounded() && cd.m.live.size() >= cd.m.cap && !cd.m.live.count(e.k);
                if (!may_evict && !cd.m.Z.count(e.k))
                {
                    EnumChooser      ch;
                    md::InsertEffect fx = cd.m.insert_rule(now, e.k, value_for(e.k, op_idx, e.orig), allow, e.ttl_ms, ch);
                    if (fx.result)
                        ++cd.count;
                    if (fx.doa && fx.result)
                        ++cd.doa;
                    continue;
                }
            }
            // very long ranges must stay on the fast path: the general path copies and serialises the whole model per element
            if (el.size() > 400 && ++slow_steps > 64)
            {
                overflow = true;
                return frontier;
            }
            for (auto& cd : frontier)
            {
                EnumChooser ch;
                do
                {
                    Cand n = cd;
                    ch.rewind();
                    md::InsertEffect fx = n.m.insert_rule(now, e.k, value_for(e.k, op_idx, e.orig), allow, e.ttl_ms, ch);
                    if (fx.result)
                        ++n.count;
                    n.f8_dev += ch.f8_dev;
                    if (fx.doa && fx.result)
                        ++n.doa;
                    if (fx.evicted)
                        ++n.evictions;
                    std::string sig = n.m.signature() + "#" + std::to_string(n.count) + "#" + std::to_string(n.f8_dev);
                    if (seen.insert(sig).second)
                        next.push_back(std::move(n));
                    if (next.size() > 4000)
                    {
                        overflow = true;
                        return next;
                    }
                } while (ch.next());
            }
            frontier.swap(next);
        }
        for (auto& cd : frontier)
            cd.m.any_victim_policy = false;
        return frontier;
    }

    struct RangeObs
    {
        size_t                  count;
        std::map<int, bool>     hit;
        std::map<int, uint64_t> val;
        std::map<int, size_t>   uc;
    };

    // 0 = full match, otherwise bitmask of what differs: 1 count, 2 key set, 4 values, 8 use counts
    int mismatch(const Cand& cd, const RangeObs& ob) const
    {
        int m = 0;
        if (cd.count != ob.count)
            m |= 1;
        for (auto& [k, h] : ob.hit)
        {
            const bool lv = cd.m.live.count(k) != 0;
            if (cd.m.Z.count(k) && !lv)
            {
                if (h)
                    m |= 2; // an expired entry was served
                continue;
            }
            if (lv != h)
                m |= 2;
            else if (lv)
            {
                auto& e = cd.m.live.at(k);
                if (!x.caps.is_set && e.val != ob.val.at(k))
                    m |= 4;
                if (x.caps.has_uc && e.count != ob.uc.at(k))
                    m |= 8;
            }
        }
        return m;
    }

    void do_insert_range(const Op& o)
    {
        M.call_start_purge();
        const size_t s0 = box->size();
        auto         el = x.effective(o);
        bool         overflow = false;
        auto         cands    = expand(M, el, step, o.allow, false, overflow);

        Outcome      r  = main_exec(o);
        const Obs    ob1 = observe();
        const size_t s1 = ob1.s;
        (void)s0;
        if (overflow)
        {
            x.label("range_insert_unresolved");
            resync_from_observation();
            return;
        }
        // observe: every key that is live in at least one candidate, plus keys absent in all
        RangeObs ob;
        ob.count = r.n;
        // with one candidate the observation only checks it; then, for large universes, the addressed keys plus a sample suffice
        std::set<int> addressed;
        for (auto& e : el)
            addressed.insert(e.k);
        const bool partial = cands.size() == 1 && x.c.uni > 48;
        for (int k = 0; k < x.c.uni; ++k)
        {
            if (partial && !addressed.count(k) && (k + step) % 8 != 0)
                continue;
            bool live_some = false, z_some = false;
            for (auto& cd : cands)
            {
                if (cd.m.live.count(k))
                    live_some = true;
                else if (cd.m.Z.count(k))
                    z_some = true;
            }
            if (!live_some && z_some)
                continue; // expired in every candidate that knows it: do not reap it by looking
            uint64_t v  = 0;
            size_t   uc = 0;
            bool     h  = pfind(k, v, &uc);
            ob.hit[k]   = h;
            ob.val[k]   = v;
            ob.uc[k]    = uc;
        }
        const Cand* best = nullptr;
        for (auto& cd : cands)
            if (mismatch(cd, ob) == 0 && s1 >= cd.m.live.size())
            {
                best = &cd;
                break;
            }
        if (!best)
        {
            // attribute by relaxation
            int best_bits = 15;
            for (auto& cd : cands)
            {
                int b = mismatch(cd, ob);
                if (__builtin_popcount(static_cast<unsigned>(b)) < __builtin_popcount(static_cast<unsigned>(best_bits)) || b < best_bits)
                    best_bits = std::min(best_bits, b);
            }
            bool only_count = false, only_vals = false, only_uc = false;
            for (auto& cd : cands)
            {
                int b = mismatch(cd, ob);
                if (b == 1)
                    only_count = true;
                if (b == 4)
                    only_vals = true;
                if (b == 8)
                    only_uc = true;
            }
            std::ostringstream d;
            d << "insert_range(allow=" << o.allow << ", flavour=" << x.flavour_of(o) << ", keys";
            for (auto& e : el)
                d << " " << e.k;
            d << ") returned " << r.n << "; residents after:";
            for (auto& [k, h] : ob.hit)
                if (h)
                    d << " " << k << "=" << ob.val[k];
            d << "; no sequence of single inserts explains this (" << cands.size() << " candidates)";
            if (only_count)
                x.fail(step, "C09", "insert_range_count", d.str());
            if (only_vals)
                x.fail(step, "C01", "insert_range_values", d.str());
            if (only_uc)
                x.fail(step, count_tag(M), "insert_range_use_counts", d.str());
            bool ov2 = false;
            auto any = expand(M, el, step, o.allow, true, ov2);
            for (auto& cd : any)
                if (!ov2 && (mismatch(cd, ob) & ~8) == 0)
                    x.fail(step, policy_tag(M), "insert_range_victims", d.str());
            x.fail(step, M.kind == bx::K_RR ? "C03,C15" : "C03", "insert_range_residents", d.str());
        }
        // labels
        {
            std::set<int> ks;
            bool          dup = false;
            for (auto& e : el)
                if (!ks.insert(e.k).second)
                    dup = true;
            if (dup)
                x.label("range_insert_with_duplicate");
            if (best->evictions > 0)
                x.label("range_insert_with_eviction");
            if (best->count > 0 && best->count < el.size())
                x.label("range_insert_mixed_success");
            if (best->f8_dev > 0)
                x.label("excluded_known_F8_C09", best->f8_dev);
            for (int i = 0; i < best->evictions; ++i)
            {
                ++evictions_in_case;
                ++removals;
            }
            if (best->evictions)
            {
                x.label("evictions", best->evictions);
                if (splices_done > 0)
                    x.label("evictions_after_splice");
                if (after_clear)
                    x.label("evictions_after_clear");
            }
            for (auto& e : el)
                if (best->m.live.count(e.k) && !M.live.count(e.k) && removals > 0)
                {
                    ++creations_after_removal;
                    x.label("slot_recycles");
                }
            x.label("range_inserts");
        }
        M = best->m;
        invariants(true, ob1);
    }

    // give up predicting: rebuild the live set from what the container says (values cannot be checked)
    void resync_from_observation()
    {
        x.res.labels["resyncs"] += 1;
        throw Stop{}; // the case ends here as a pass for everything checked so far
    }

    // ---- erase -----------------------------------------------------------------------------------
    void do_erase(const Op& o)
    {
        M.call_start_purge();
        const bool k_live = M.live.count(o.k) != 0;
        compare_excluded  = M.Z.count(o.k) != 0;
        Outcome    r      = main_exec(o);
        compare_excluded  = false;
        const Obs  ob1    = observe();
        if (k_live)
        {
            if (r.b)
            {
                if (M.kind == bx::K_FIFO)
                {
                    auto cands = M.victim_candidates();
                    if (!cands.empty() && cands[0] != o.k)
                        erase_mid_seen = true;
                }
                M.live.erase(o.k);
                prior_erased.insert(o.k);
                ++removals;
                x.label("erases_of_live");
                if (was_full)
                    erase_after_full = true;
            }
            else
                x.label("erase_of_live_returned_false");
        }
        else
        {
            if (M.Z.count(o.k))
                x.label("erases_of_expired");
            else
                x.label("erases_of_absent");
            M.Z.erase(o.k);
        }
        invariants(true, ob1);
    }

    void do_erase_range(const Op& o)
    {
        M.call_start_purge();
        auto             el = x.effective(o);
        std::vector<int> live_in, z_in;
        for (auto& e : el)
        {
            if (M.live.count(e.k) && std::find(live_in.begin(), live_in.end(), e.k) == live_in.end())
                live_in.push_back(e.k);
            if (M.Z.count(e.k) && std::find(z_in.begin(), z_in.end(), e.k) == z_in.end())
                z_in.push_back(e.k);
        }
        compare_excluded = !z_in.empty();
        Outcome   r    = main_exec(o);
        compare_excluded = false;
        const Obs ob1  = observe();
        size_t    gone = 0;
        for (int k : live_in)
        {
            uint64_t v = 0;
            if (!pfind(k, v))
            {
                if (M.kind == bx::K_FIFO)
                {
                    auto cands = M.victim_candidates();
                    if (!cands.empty() && cands[0] != k)
                        erase_mid_seen = true;
                }
                M.live.erase(k);
                prior_erased.insert(k);
                ++removals;
                ++gone;
                if (was_full)
                    erase_after_full = true;
            }
        }
        for (int k : z_in)
            M.Z.erase(k);
        // the count is the number of individual successes (C18); a success removes the key (C01/C03)
        if (r.n < gone || r.n > gone + z_in.size())
            x.fail(step, "C18", "erase_range_count",
                   "erase_range returned " + std::to_string(r.n) + " but " + std::to_string(gone) + " live keys disappeared and " + std::to_string(z_in.size()) +
                       " addressed keys were expired-not-removed");
        x.label("range_erases");
        invariants(true, ob1);
    }

    // ---- range lookups -----------------------------------------------------------------------------
    void do_find_range(const Op& o)
    {
        M.call_start_purge();
        auto      el  = x.effective(o);
        Outcome   r   = main_exec(o);
        const Obs ob1 = observe();
        if (r.fr.size() != el.size())
            x.fail(step, "C18", "find_range_one_result_per_key",
                   std::string(cs::op_name(o.code)) + " over " + std::to_string(el.size()) + " keys returned " + std::to_string(r.fr.size()) + " results");
        const bool peek = x.caps.has_peek ? o.peek : false;
        std::set<int> seen;
        bool          dup = false;
        for (size_t i = 0; i < el.size(); ++i)
        {
            if (r.fr[i].k != el[i].k)
                x.fail(step, "C18", "find_range_order", "result " + std::to_string(i) + " is reported for another key than input key " + std::to_string(el[i].k));
            lookup_rule(el[i].k, peek, r.fr[i].hit, r.fr[i].v, false, 0, cs::op_name(o.code), 3);
            if (!seen.insert(el[i].k).second)
                dup = true;
        }
        if (dup)
            x.label("range_lookup_with_duplicate");
        x.label("range_lookups");
        invariants(true, ob1);
    }

    void do_lookup(const Op& o)
    {
        if (o.code == cs::O_FINDR || o.code == cs::O_FINDRF)
        {
            do_find_range(o);
            return;
        }
        M.call_start_purge();
        Outcome   r   = main_exec(o);
        const Obs ob1 = observe();
        lookup_rule(o.k, x.caps.has_peek ? o.peek : false, r.hit, r.v, o.code == cs::O_FINDUC, r.uc, cs::op_name(o.code), 2);
        invariants(true, ob1);
    }

    // ---- clock -------------------------------------------------------------------------------------
    void after_clock_move()
    {
        note_expired();
        int n = M.expire(vt::now());
        if (n > 0)
            x.label("entries_expired_by_clock", n);
        if (n > 0 && after_clear)
            x.label("expired_after_clear");
        since_adv = true;
        invariants(false, observe());
        if (!M.utx())
        {
            // peek lookups of live keys reap nothing: a miss here is an entry that expired early
            for (auto& [k, e] : M.live)
            {
                uint64_t v = 0;
                if (!pfind(k, v))
                    x.fail(step, M.ttl_kind() ? "C05" : "C03", "lost_across_clock_advance",
                           "key " + std::to_string(k) + " (deadline in " + std::to_string(e.deadline - vt::now()) + " ns) disappeared across a pure clock advance");
            }
        }
    }

    void do_advance_to(const Op& o)
    {
        std::set<int64_t> b;
        const int64_t     now = vt::now();
        for (auto& [k, e] : M.live)
        {
            (void)k;
            if (M.ttl_kind() && e.deadline != INT64_MAX)
                b.insert(e.deadline);
            if (M.kind == bx::K_LFUDA)
                b.insert(e.touched + M.tick_ns);
        }
        std::vector<int64_t> ok;
        for (int64_t t : b)
            if (t + o.off >= now && t < 4'000'000'000'000'000'000ll) // never move the clock so far that now + ttl could overflow
                ok.push_back(t + o.off);
        if (ok.empty())
            return;
        int64_t target = ok[static_cast<size_t>(o.j) % ok.size()];
        vt::set(target);
        x.label(o.off == 0 ? "clock_set_exactly_on_boundary" : o.off < 0 ? "clock_set_1ns_before_boundary" : "clock_set_1ns_after_boundary");
        after_clock_move();
    }

    // ---- twin-noop: a call that must have no effect, executed by the second instance only ---------------
    void do_splice(const Op& o)
    {
        if (!shadow || twin_mode != "twin-noop")
            return;
        auto live = [&](int k) { return M.live.count(k) != 0; };
        auto zomb = [&](int k) { return M.Z.count(k) != 0; };
        Op   o2   = o;
        o2.splice = false;
        switch (o.code)
        {
            case cs::O_FIND:
            case cs::O_FINDUC:
                if (live(o.k))
                {
                    if (!x.caps.has_peek)
                        return; // a hit without a peek option is not on the statement's list
                    o2.peek = true;
                }
                break;
            case cs::O_FINDR:
            case cs::O_FINDRF:
                if (x.caps.has_peek)
                    o2.peek = true;
                else
                {
                    o2.elems.clear();
                    for (auto& e : o.elems)
                        if (!live(e.k))
                            o2.elems.push_back(e);
                }
                break;
            case cs::O_INS:
                if (live(o.k))
                    o2.allow = bx::A_INSERT;
                else if (!zomb(o.k))
                    o2.allow = bx::A_UPDATE;
                else
                    return;
                break;
            case cs::O_INSR:
                o2.elems.clear();
                if (o.allow & bx::A_INSERT)
                {
                    o2.allow = bx::A_INSERT;
                    for (auto& e : o.elems)
                        if (live(e.k))
                            o2.elems.push_back(e);
                }
                else
                {
                    o2.allow = bx::A_UPDATE;
                    for (auto& e : o.elems)
                        if (!live(e.k) && !zomb(e.k))
                            o2.elems.push_back(e);
                }
                break;
            case cs::O_ERA:
                if (live(o.k))
                    return;
                break;
            case cs::O_ERAR:
                o2.elems.clear();
                for (auto& e : o.elems)
                    if (!live(e.k))
                        o2.elems.push_back(e);
                break;
            default: return;
        }
        x.exec(*shadow, o2, step);
        shadow_called = true;
        ++splices_done;
        x.label("splices_executed");
        x.label(std::string("splice_") + cs::op_name(o.code));
    }

    // ---- main loop -----------------------------------------------------------------------------------
    void run()
    {
        invariants(false, observe());
        for (step = 0; step < static_cast<int>(x.c.ops.size()); ++step)
        {
            const Op& o0 = x.c.ops[static_cast<size_t>(step)];
            if (!x.supported(o0))
                continue;
            note_expired();
            M.expire(vt::now());
            if (o0.splice)
            {
                do_splice(o0);
                continue;
            }
            Op        filtered;
            const Op* op = &o0;
            if (twin_mode == "twin-noop" && M.ttl_kind() && o0.allow == bx::A_UPDATE)
            {
                // an update-only insert addressed to an expired key may legitimately differ between the twins: not generated
                if (o0.code == cs::O_INS && M.Z.count(o0.k))
                {
                    x.label("excluded_by_statement");
                    continue;
                }
                if (o0.code == cs::O_INSR)
                {
                    filtered = o0;
                    filtered.elems.clear();
                    for (auto& e : o0.elems)
                        if (!M.Z.count(e.k))
                            filtered.elems.push_back(e);
                        else
                            x.label("excluded_by_statement");
                    op = &filtered;
                }
            }
            const Op& o = *op;
            switch (o.code)
            {
                case cs::O_INS: do_insert(o); break;
                case cs::O_INSR: do_insert_range(o); break;
                case cs::O_ERA: do_erase(o); break;
                case cs::O_ERAR: do_erase_range(o); break;
                case cs::O_FIND:
                case cs::O_FINDUC:
                case cs::O_FINDR:
                case cs::O_FINDRF: do_lookup(o); break;
                case cs::O_REP:
                {
                    // repeat the previous m lookup operations n more times at a frozen clock (no scans in between)
                    std::vector<const Op*> blk;
                    for (int i = step - 1; i >= 0 && blk.size() < static_cast<size_t>(1 + o.j % 3); --i)
                    {
                        const Op& q = x.c.ops[static_cast<size_t>(i)];
                        if (q.splice || !x.supported(q))
                            continue;
                        if (q.code == cs::O_FIND || q.code == cs::O_FINDUC || q.code == cs::O_FINDR || q.code == cs::O_FINDRF)
                            blk.insert(blk.begin(), &q);
                    }
                    if (blk.empty())
                        continue;
                    const int64_t n = o.ttl_ms < 1 ? 1 : o.ttl_ms;
                    for (int64_t it = 0; it < n; ++it)
                        for (const Op* q : blk)
                            do_lookup(*q);
                    x.label("repeat_blocks");
                    x.label("repeated_lookups", static_cast<long>(n * static_cast<int64_t>(blk.size())));
                    break;
                }
                case cs::O_CLEAN:
                {
                    const size_t s0 = box->size();
                    const size_t nl = M.live.size();
                    Outcome      r  = main_exec(o);
                    const Obs    ob1 = observe();
                    const size_t s1 = ob1.s;
                    if (s0 > nl && nl > 0)
                        x.label("clean_with_live_and_expired");
                    if (s0 > nl)
                        x.label("clean_with_expired");
                    if (r.n != s0 - nl)
                        x.fail(step, "C17", "clean_return_value",
                               "clean_expired_values() returned " + std::to_string(r.n) + ", size before " + std::to_string(s0) + ", live " + std::to_string(nl));
                    if (s1 != nl)
                        x.fail(step, "C17", "clean_leaves_only_live", "size() after clean = " + std::to_string(s1) + ", live " + std::to_string(nl));
                    M.Z.clear();
                    invariants(true, ob1);
                    scan(2, "C17,C03,C05", true);
                    break;
                }
                case cs::O_AGE:
                {
                    bool    mixed = false, hard = false;
                    size_t  want  = M.age(vt::now(), &mixed, &hard);
                    Outcome r     = main_exec(o);
                    if (mixed)
                        x.label("aging_points_mixed");
                    if (hard)
                        x.label("aging_points_mixed_older_entry_fresher");
                    if (want > 0)
                        x.label("aging_points_with_decay");
                    if (want > 0 && splices_done > 0)
                        x.label("aging_after_splice");
                    if (r.n != want)
                        x.fail(step, "C14", "dynamically_age_return",
                               "dynamically_age() returned " + std::to_string(r.n) + ", " + std::to_string(want) + " entries were idle longer than the tick");
                    invariants(true, observe());
                    break;
                }
                case cs::O_UTTL:
                    main_exec(o);
                    if (o.ttl_ms < M.ttl_cfg_ms)
                        x.label("update_ttl_shorter");
                    if (o.ttl_ms > M.ttl_cfg_ms)
                        x.label("update_ttl_longer");
                    M.ttl_cfg_ms  = o.ttl_ms;
                    M.uttl_called = true;
                    invariants(false, observe());
                    break;
                case cs::O_CLEAR:
                {
                    if (!M.live.empty() || !M.Z.empty())
                        x.label("clear_on_nonempty");
                    main_exec(o);
                    removals += static_cast<int>(M.live.size());
                    M.live.clear();
                    M.Z.clear();
                    M.dead.clear();
                    if (box->size() != 0)
                        x.fail(step, "C20,C02", "clear_size_zero", "size() after clear() = " + std::to_string(box->size()));
                    if (twin_mode == "twin-clear" && step == clear_at)
                    {
                        // the twin: a newly constructed container with the same capacity and the currently configured TTL
                        bx::Config cb = x.c.cfg;
                        cb.ttl_ms     = M.ttl_cfg_ms;
                        vt::g_rd_calls.store(0);
                        shadow      = bx::make_box(cb);
                        after_clear = true;
                        x.label("twin_created_after_clear");
                    }
                    invariants(true, observe());
                    break;
                }
                case cs::O_ADV:
                    vt::set(vt::now() + o.dt_ns);
                    after_clock_move();
                    continue;
                case cs::O_ADVTO: do_advance_to(o); continue;
                case cs::O_SCAN:
                {
                    const bool looked = scan(o.mode, since_adv && M.ttl_kind() ? "C05,C03" : "C03", true);
                    invariants(looked, observe());
                    continue;
                }
                case cs::O_OBS: invariants(false, observe()); continue;
                default: continue;
            }
            // after every mutating / looking-up call: everything that should be there is, nothing else is
            const bool looked = scan(1, since_adv && M.ttl_kind() ? "C03,C05" : "C03");
            if (M.utx())
                invariants(looked, observe());
        }
    }
};

bool nontrivial_for(const std::string& p, const std::map<std::string, long>& L, int kind)
{
    auto g = [&](const char* k) {
        auto it = L.find(k);
        return it == L.end() ? 0L : it->second;
    };
    if (p == "C01")
        return g("slot_recycles") >= 1 && g("checked_hits_after_recycle") >= 1;
    if (p == "C02")
        return g("size_dec_then_inc") >= 1;
    if (p == "C03")
        return g("inserts_into_full") + g("range_insert_with_eviction") >= 1 &&
               (g("inserts_into_free_slot_after_erase_on_full") >= 1 || kind == bx::K_UTMAP || kind == bx::K_UTSET);
    if (p == "C04")
        return g("zombie_probes") >= 1;
    if (p == "C05")
        return g("hits_within_1ms_of_deadline") >= 1 && g("writes_moving_a_deadline") >= 1;
    if (p == "C08")
        return g("slot_recycles") >= 2;
    if (p == "C09")
        return g("rejected_with_prior_history") >= 1 && g("accepted_with_prior_history") >= 1;
    if (p == "C10")
        return g("evict_victim_not_oldest_inserted") >= 1;
    if (p == "C11")
        return g("evict_with_nonuniform_counts") >= 1;
    if (p == "C12")
        return g("fifo_evict_after_mid_erase_refill") + g("fifo_evict_after_oldest_touched") >= 1;
    if (p == "C13")
        return g("evict_victim_not_newest_inserted") >= 1;
    if (p == "C14")
        return g("aging_points_mixed_older_entry_fresher") >= 1;
    if (p == "C15")
        return g("evictions") >= 2 && g("erases_of_live") >= 1;
    if (p == "C16")
        return g("inserts_into_full_with_expired_and_live") >= 1;
    if (p == "C17")
        return g("clean_with_live_and_expired") >= 1;
    if (p == "C18")
        return g("twin_range_with_duplicate") + g("twin_range_mixed_success") + g("range_insert_with_eviction") >= 1;
    if (p == "C19")
        return g("splices_executed") >= 1 && g("evictions_after_splice") + g("aging_after_splice") >= 1;
    if (p == "C20")
        return g("twin_created_after_clear") >= 1 && g("clear_on_nonempty") >= 1 && g("evictions_after_clear") + g("expired_after_clear") >= 1;
    return g("evictions") >= 1;
}
} // namespace

// ================================================================================================
Result run_model(const cs::Case& c, const Options& opt)
{
    Ctx x(c, opt);
    vt::reset(c.cfg.seed);
    vv::key_mode().store(c.cfg.kmode);
    const long base_live = vv::tracked_stats::live().load();
    try
    {
        ModelRun run(x);
        if (opt.mode == "twin-range" || opt.mode == "twin-noop")
        {
            run.twin_mode = opt.mode;
            run.twin_tag  = opt.mode == "twin-range" ? "C18" : "C19";
            vt::g_rd_calls.store(0); // both instances draw the same random_device values
            run.shadow = bx::make_box(c.cfg);
        }
        else if (opt.mode == "twin-clear")
        {
            run.twin_mode = opt.mode;
            run.twin_tag  = "C20";
            for (size_t i = 0; i < c.ops.size(); ++i)
                if (c.ops[i].code == cs::O_CLEAR && !c.ops[i].splice && x.supported(c.ops[i]))
                    run.clear_at = static_cast<int>(i);
        }
        run.run();
        // final full scan including expired entries (C04)
        run.note_expired();
        run.M.expire(vt::now());
        run.scan(2, "C03", true);
        x.res.labels["tracked_constructed"] = vv::tracked_stats::constructed().load();
    }
    catch (const Stop&)
    {
    }
    // exactly-once: every value instance the container ever created has been destroyed by now
    const long after = vv::tracked_stats::live().load();
    if (after != base_live && x.res.verdict == V_PASS)
    {
        try
        {
            x.fail(static_cast<int>(c.ops.size()), "C08", "values_destroyed_exactly_once",
                   "live value instances before the case " + std::to_string(base_live) + ", after the container was destroyed " + std::to_string(after));
        }
        catch (const Stop&)
        {
        }
    }
    x.res.nontrivial = x.res.verdict == V_PASS && nontrivial_for(opt.property, x.res.labels, c.cfg.kind);
    return x.res;
}

Result run_stats_rr(const cs::Case& c, const Options& opt); // twin.cpp

Result run_case(const cs::Case& c, const Options& opt)
{
    if (opt.mode == "stats-rr" || opt.mode == "stats-rr-mass")
        return run_stats_rr(c, opt);
    return run_model(c, opt);
}

std::string result_to_text(const Result& r)
{
    std::ostringstream s;
    s << "verdict " << r.verdict << "\n";
    s << "nontrivial " << (r.nontrivial ? 1 : 0) << "\n";
    if (r.verdict == V_VIOLATION || r.verdict == V_FOREIGN)
    {
        s << "pred " << r.pred << "\n";
        s << "tags " << r.tags << "\n";
        s << "step " << r.step << "\n";
        s << "msg " << r.msg << "\n";
    }
    for (auto& [k, v] : r.labels)
        s << "L " << k << " " << v << "\n";
    return s.str();
}
} // namespace en

extern "C" int verif_run_case_text(const char* text, const char* property, const char* mode, int strict_f8, char* out, unsigned long out_cap)
{
    cs::Case c;
    if (!cs::from_text(text, c))
    {
        if (out && out_cap)
            std::snprintf(out, out_cap, "verdict 3\n");
        return en::V_INVALID;
    }
    en::Options o;
    o.property  = property;
    o.mode      = mode;
    o.strict_f8 = strict_f8 != 0;
    en::Result  r = en::run_case(c, o);
    std::string t = en::result_to_text(r);
    if (out && out_cap)
    {
        std::strncpy(out, t.c_str(), out_cap - 1);
        out[out_cap - 1] = 0;
    }
    return r.verdict;
}
