// Key tables and value types used to instantiate the containers.
//   keys are *indices* into a fixed per-type table (every sub-sequence of a case stays valid),
//   values are uint64 payloads wrapped in one of three value types.
#pragma once
#include <atomic>
#include <cstdint>
#include <cstdio>
#include <cstdlib>
#include <cstring>
#include <string>

#ifdef VERIF_VALUE_POINTS
// schedule engine only: every copy / assignment of a value the container makes is a schedule point, which puts
// preemption points INSIDE the containers' critical sections (a thread that is descheduled there still owns the lock,
// so only code that does not take the lock can run meanwhile - exactly what an unlocked observer would do)
extern "C" void verif_value_point();
#define VERIF_VALUE_POINT() verif_value_point()
#else
#define VERIF_VALUE_POINT() ((void)0)
#endif

namespace vv
{
constexpr int kMaxKeys = 2400;

// key mode of the running case: 0 = mixed table, 1 = multiples of 64 (all congruent modulo small powers of two),
// 2 = keys differing only above bit 32
inline std::atomic<int>& key_mode()
{
    static std::atomic<int> m{0};
    return m;
}

// ---- keys -------------------------------------------------------------------------------------
inline uint64_t u64_key(int i)
{
    const int km = key_mode().load(std::memory_order_relaxed);
    if (km == 1)
        return static_cast<uint64_t>(i + 1) * 64ull;
    if (km == 2)
        return (static_cast<uint64_t>(i + 1) << 32) + 5ull;
    // Mixed bag: small values, values colliding modulo the small primes libstdc++ uses as bucket
    // counts (2,3,5,7,11,13,17,...), and extremes.  All distinct.
    static const uint64_t t[48] = {
        0ull, 1ull, 13ull, 26ull, 0xFFFFFFFFFFFFFFFFull, 1ull << 32, 39ull, 7ull, 14ull, 2ull, 5ull, 10ull, 3ull, 6ull, 11ull, 22ull,
        17ull, 34ull, 1ull << 63, (1ull << 32) + 1, 29ull, 58ull, 37ull, 74ull, 53ull, 106ull, 97ull, 194ull, 4ull, 8ull, 9ull, 12ull,
        15ull, 16ull, 18ull, 19ull, 20ull, 21ull, 23ull, 24ull, 25ull, 27ull, 28ull, 30ull, 31ull, 32ull, 33ull, 35ull};
    if (i >= 48)
        return 1000ull + static_cast<uint64_t>(i) * 7ull; // large universes (unbounded containers): plain distinct keys
    return t[i];
}
inline std::string str_key(int i)
{
    // odd indices are long enough to defeat the small-string optimisation
    std::string s = "k" + std::to_string(i);
    if (i & 1)
        s += "-padding-beyond-the-sso-buffer-" + std::to_string(i * 7919);
    return s;
}
template<typename K>
struct key_table;
template<>
struct key_table<uint64_t>
{
    static uint64_t get(int i) { return u64_key(i); }
};
template<>
struct key_table<std::string>
{
    static std::string get(int i) { return str_key(i); }
};

// ---- values -----------------------------------------------------------------------------------
// Tracked: payload + owned heap block (so ASan sees double free / use after free of a value) +
// self pointer and magic (so double destruction of an in-place object, which is not a heap event,
// is caught) + global live-instance counter (exactly-once: the counter must return to its baseline
// once the container is gone).  The counter is a relaxed atomic: it creates no happens-before edge,
// so it cannot hide a race from ThreadSanitizer.
struct tracked_stats
{
    static std::atomic<long>& live()
    {
        static std::atomic<long> v{0};
        return v;
    }
    static std::atomic<long>& errors()
    {
        static std::atomic<long> v{0};
        return v;
    }
    static std::atomic<long>& constructed()
    {
        static std::atomic<long> v{0};
        return v;
    }
};

class Tracked
{
    static constexpr uint32_t kAlive = 0xA11CE5EDu;
    static constexpr uint32_t kDead  = 0xDEADDEADu;

public:
    Tracked() : m_payload(0), m_block(new uint64_t(0)) { born(); }
    explicit Tracked(uint64_t p) : m_payload(p), m_block(new uint64_t(p)) { born(); }
    Tracked(const Tracked& o) : m_payload(o.checked()), m_block(new uint64_t(*o.m_block))
    {
        born();
        VERIF_VALUE_POINT();
    }
    Tracked(Tracked&& o) noexcept : m_payload(o.checked()), m_block(o.m_block)
    {
        o.m_block = new uint64_t(0xFFFF'FFFF'FFFF'FFFEull);
        o.m_payload = 0xFFFF'FFFF'FFFF'FFFEull;
        born();
    }
    Tracked& operator=(const Tracked& o)
    {
        VERIF_VALUE_POINT();
        checked();
        uint64_t p = o.checked();
        uint64_t b = *o.m_block;
        *m_block   = b;
        m_payload  = p;
        return *this;
    }
    Tracked& operator=(Tracked&& o) noexcept
    {
        VERIF_VALUE_POINT();
        checked();
        o.checked();
        if (this != &o)
        {
            std::swap(m_block, o.m_block);
            std::swap(m_payload, o.m_payload);
        }
        return *this;
    }
    ~Tracked()
    {
        if (m_magic != kAlive || m_self != this)
        {
            tracked_stats::errors().fetch_add(1, std::memory_order_relaxed);
            std::fprintf(stderr, "VERIF-TRACKED: destruction of a value that is not alive (magic=%08x)\n", m_magic);
            std::abort();
        }
        m_magic = kDead;
        delete m_block;
        m_block = nullptr;
        tracked_stats::live().fetch_sub(1, std::memory_order_relaxed);
    }
    friend bool operator==(const Tracked& a, const Tracked& b) { return a.payload() == b.payload(); }
    friend bool operator!=(const Tracked& a, const Tracked& b) { return !(a == b); }
    uint64_t payload() const
    {
        checked();
        if (*m_block != m_payload)
        {
            std::fprintf(stderr, "VERIF-TRACKED: heap block and payload disagree\n");
            std::abort();
        }
        return m_payload;
    }

private:
    void born()
    {
        m_magic = kAlive;
        m_self  = this;
        tracked_stats::live().fetch_add(1, std::memory_order_relaxed);
        tracked_stats::constructed().fetch_add(1, std::memory_order_relaxed);
    }
    uint64_t checked() const
    {
        if (m_magic != kAlive || m_self != this)
        {
            std::fprintf(stderr, "VERIF-TRACKED: use of a value that is not alive (magic=%08x)\n", m_magic);
            std::abort();
        }
        return m_payload;
    }
    uint64_t       m_payload;
    uint64_t*      m_block;
    const Tracked* m_self{nullptr};
    uint32_t       m_magic{0};
};

// BigTracked: a value larger than 256 bytes (size-dependent code paths), with a Tracked in the middle and padding derived from
// the payload on both sides: a torn copy (front half from one write, back half from another) is recognisable as such.
struct BigTracked
{
    static constexpr uint64_t kTorn = 0xBAD0'0000'0000'0000ull;
    unsigned char front[168];
    Tracked       t;
    unsigned char back[168];
    BigTracked() : t() { fill(0); }
    explicit BigTracked(uint64_t p) : t(p) { fill(p); }
    BigTracked(const BigTracked&) = default;
    BigTracked(BigTracked&&)      = default;
    BigTracked& operator=(const BigTracked&) = default;
    // deliberately NOT noexcept: code that chooses a different path for value types whose move assignment may throw takes it here
    BigTracked& operator=(BigTracked&& o)
    {
        std::memcpy(front, o.front, sizeof front);
        t = std::move(o.t);
        std::memcpy(back, o.back, sizeof back);
        return *this;
    }
    friend bool operator==(const BigTracked& a, const BigTracked& b) { return a.payload() == b.payload(); }
    friend bool operator!=(const BigTracked& a, const BigTracked& b) { return !(a == b); }
    void fill(uint64_t p)
    {
        for (size_t i = 0; i < sizeof front; ++i)
        {
            front[i] = static_cast<unsigned char>((p * 131 + i) & 0xff);
            back[i]  = static_cast<unsigned char>((p * 137 + i * 3) & 0xff);
        }
    }
    uint64_t payload() const
    {
        const uint64_t p = t.payload();
        for (size_t i = 0; i < sizeof front; ++i)
            if (front[i] != static_cast<unsigned char>((p * 131 + i) & 0xff) || back[i] != static_cast<unsigned char>((p * 137 + i * 3) & 0xff))
                return kTorn | (p & 0xffff'ffffull); // a value nobody ever stored
        return p;
    }
};
static_assert(sizeof(BigTracked) > 256, "BigTracked must exceed 256 bytes");

template<typename V>
struct value_conv;
template<>
struct value_conv<BigTracked>
{
    static BigTracked make(uint64_t p) { return BigTracked(p); }
    static uint64_t   read(const BigTracked& v) { return v.payload(); }
};
template<>
struct value_conv<Tracked>
{
    static Tracked  make(uint64_t p) { return Tracked(p); }
    static uint64_t read(const Tracked& v) { return v.payload(); }
};
template<>
struct value_conv<uint64_t>
{
    static uint64_t make(uint64_t p) { return p; }
    static uint64_t read(const uint64_t& v) { return v; }
};
template<>
struct value_conv<std::string>
{
    static std::string make(uint64_t p)
    {
        char buf[64];
        std::snprintf(buf, sizeof buf, "value-payload-%024llu", static_cast<unsigned long long>(p));
        return buf;
    }
    static uint64_t read(const std::string& v)
    {
        if (v.size() != 38 || v.compare(0, 14, "value-payload-") != 0)
            return 0xFFFF'FFFF'FFFF'FFFDull; // a default-constructed or mangled string
        return std::strtoull(v.c_str() + 14, nullptr, 10);
    }
};
} // namespace vv
