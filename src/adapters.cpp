// Thin adapters from the type-erased IBox interface to the real containers.
// Compiled once per container kind (-DVERIF_KIND=<n>) so the ten kinds build in parallel.
#include "box.hpp"
#include "values.hpp"

#include <chrono>
#include <list>
#include <map>
#include <optional>
#include <set>
#include <tuple>

#include <cappuccino/cappuccino.hpp>

#ifndef VERIF_KIND
#error "compile with -DVERIF_KIND=<0..9>"
#endif

namespace bx
{
namespace
{
using ms = std::chrono::milliseconds;
namespace cap = cappuccino;

template<int KIND, typename K, typename V, cap::thread_safe TS>
struct container_of;
template<typename K, typename V, cap::thread_safe TS>
struct container_of<K_LRU, K, V, TS>
{
    using type = cap::lru_cache<K, V, TS>;
};
template<typename K, typename V, cap::thread_safe TS>
struct container_of<K_MRU, K, V, TS>
{
    using type = cap::mru_cache<K, V, TS>;
};
template<typename K, typename V, cap::thread_safe TS>
struct container_of<K_FIFO, K, V, TS>
{
    using type = cap::fifo_cache<K, V, TS>;
};
template<typename K, typename V, cap::thread_safe TS>
struct container_of<K_LFU, K, V, TS>
{
    using type = cap::lfu_cache<K, V, TS>;
};
template<typename K, typename V, cap::thread_safe TS>
struct container_of<K_LFUDA, K, V, TS>
{
    using type = cap::lfuda_cache<K, V, TS>;
};
template<typename K, typename V, cap::thread_safe TS>
struct container_of<K_RR, K, V, TS>
{
    using type = cap::rr_cache<K, V, TS>;
};
template<typename K, typename V, cap::thread_safe TS>
struct container_of<K_TLRU, K, V, TS>
{
    using type = cap::tlru_cache<K, V, TS>;
};
template<typename K, typename V, cap::thread_safe TS>
struct container_of<K_UTLRU, K, V, TS>
{
    using type = cap::utlru_cache<K, V, TS>;
};
template<typename K, typename V, cap::thread_safe TS>
struct container_of<K_UTMAP, K, V, TS>
{
    using type = cap::ut_map<K, V, TS>;
};
template<typename K, typename V, cap::thread_safe TS>
struct container_of<K_UTSET, K, V, TS>
{
    using type = cap::ut_set<K, TS>;
};

template<int KIND, typename K, typename V, cap::thread_safe TS>
class Box final : public IBox
{
    using C  = typename container_of<KIND, K, V, TS>::type;
    using KT = vv::key_table<K>;
    using VC = vv::value_conv<V>;

    static constexpr bool kPeekEnum = (KIND == K_LRU || KIND == K_MRU || KIND == K_TLRU || KIND == K_UTLRU);
    static constexpr bool kPeekBool = (KIND == K_LFU || KIND == K_LFUDA);
    static constexpr bool kSet      = (KIND == K_UTSET);
    static constexpr bool kFifo     = (KIND == K_FIFO);

    static C* construct(const Config& c)
    {
        if constexpr (KIND == K_LFUDA)
            return new C(c.cap, ms{c.tick_ms}, static_cast<float>(c.ratio_num) / static_cast<float>(c.ratio_den), c.mlf);
        else if constexpr (KIND == K_UTLRU)
            return new C(ms{c.ttl_ms}, c.cap, c.mlf);
        else if constexpr (KIND == K_UTMAP || KIND == K_UTSET)
            return new C(ms{c.ttl_ms});
        else
            return new C(c.cap, c.mlf);
    }

    static cap::allow to_allow(int a)
    {
        return a == A_INSERT ? cap::allow::insert : a == A_UPDATE ? cap::allow::update : cap::allow::insert_or_update;
    }
    static cap::peek to_peek(bool p) { return p ? cap::peek::yes : cap::peek::no; }

    std::unique_ptr<C> m_c;

public:
    explicit Box(const Config& c) : m_c(construct(c)) {}

    bool insert(int k, uint64_t v, int allow, int64_t ttl_ms) override
    {
        (void)ttl_ms;
        (void)v;
        if constexpr (KIND == K_TLRU)
            return m_c->insert(ms{ttl_ms}, KT::get(k), VC::make(v), to_allow(allow));
        else if constexpr (kSet)
            return m_c->insert(KT::get(k), to_allow(allow));
        else
            return m_c->insert(KT::get(k), VC::make(v), to_allow(allow));
    }

    size_t insert_range(const std::vector<KV>& kvs, int allow, int flavour) override
    {
        const auto a = to_allow(allow);
        if constexpr (KIND == K_TLRU)
        {
            if (flavour == F_ASSOC)
            {
                // a range whose elements decompose as [ttl, key, value]: std::list of tuples
                std::list<std::tuple<ms, K, V>> r;
                for (auto& e : kvs)
                    r.emplace_back(ms{e.ttl_ms}, KT::get(e.k), VC::make(e.v));
                return m_c->insert_range(r, a);
            }
            std::vector<std::tuple<ms, K, V>> r;
            for (auto& e : kvs)
                r.emplace_back(ms{e.ttl_ms}, KT::get(e.k), VC::make(e.v));
            return m_c->insert_range(std::move(r), a);
        }
        else if constexpr (kSet)
        {
            if (flavour == F_ASSOC)
            {
                std::set<K> r;
                for (auto& e : kvs)
                    r.insert(KT::get(e.k));
                return m_c->insert_range(r, a);
            }
            std::vector<K> r;
            for (auto& e : kvs)
                r.push_back(KT::get(e.k));
            return m_c->insert_range(std::move(r), a);
        }
        else
        {
            if (flavour == F_ASSOC)
            {
                std::map<K, V> r;
                for (auto& e : kvs)
                    r.emplace(KT::get(e.k), VC::make(e.v));
                return m_c->insert_range(r, a);
            }
            if constexpr (kFifo)
            {
                if (flavour == F_ITER)
                {
                    std::vector<std::pair<K, V>> r;
                    for (auto& e : kvs)
                        r.emplace_back(KT::get(e.k), VC::make(e.v));
                    return m_c->insert(r.begin(), r.end(), a);
                }
                if (flavour == F_LIST)
                {
                    std::list<std::pair<K, V>> r;
                    for (auto& e : kvs)
                        r.emplace_back(KT::get(e.k), VC::make(e.v));
                    return m_c->insert(r.begin(), r.end(), a);
                }
            }
            std::vector<std::pair<K, V>> r;
            for (auto& e : kvs)
                r.emplace_back(KT::get(e.k), VC::make(e.v));
            return m_c->insert_range(std::move(r), a);
        }
    }

    bool erase(int k) override { return m_c->erase(KT::get(k)); }

    size_t erase_range(const std::vector<int>& ks, int flavour) override
    {
        if (flavour == F_ASSOC)
        {
            std::set<K> r;
            for (int k : ks)
                r.insert(KT::get(k));
            return m_c->erase_range(r);
        }
        if constexpr (kFifo)
        {
            if (flavour == F_ITER)
            {
                std::vector<K> r;
                for (int k : ks)
                    r.push_back(KT::get(k));
                return m_c->erase(r.begin(), r.end());
            }
            if (flavour == F_LIST)
            {
                std::list<K> r;
                for (int k : ks)
                    r.push_back(KT::get(k));
                return m_c->erase(r.begin(), r.end());
            }
        }
        std::vector<K> r;
        for (int k : ks)
            r.push_back(KT::get(k));
        return m_c->erase_range(r);
    }

    bool find(int k, bool peek, uint64_t& v) override
    {
        (void)peek;
        if constexpr (kSet)
        {
            v = 0;
            return m_c->find(KT::get(k));
        }
        else
        {
            std::optional<V> r;
            if constexpr (kPeekEnum)
                r = m_c->find(KT::get(k), to_peek(peek));
            else if constexpr (kPeekBool)
                r = m_c->find(KT::get(k), peek);
            else
                r = m_c->find(KT::get(k));
            if (!r.has_value())
                return false;
            v = VC::read(*r);
            return true;
        }
    }

    bool find_uc(int k, bool peek, uint64_t& v, size_t& uc) override
    {
        (void)k;
        (void)peek;
        (void)v;
        (void)uc;
        if constexpr (kPeekBool)
        {
            auto r = m_c->find_with_use_count(KT::get(k), peek);
            if (!r.has_value())
                return false;
            v  = VC::read(r->first);
            uc = r->second;
            return true;
        }
        else
            return false;
    }

    template<typename OUT>
    void collect(const std::vector<int>& order, const OUT& res, std::vector<FindRes>& out)
    {
        // one FindRes per element the container returned; the reported key is matched against the
        // key the harness put at that position, -1 if the container reported something else
        size_t i = 0;
        for (auto& pr : res)
        {
            FindRes f{-1, false, 0};
            if (i < order.size() && pr.first == KT::get(order[i]))
                f.k = order[i];
            if constexpr (kSet)
                f.hit = pr.second;
            else
            {
                f.hit = pr.second.has_value();
                if (f.hit)
                    f.v = VC::read(*pr.second);
            }
            out.push_back(f);
            ++i;
        }
    }

    static std::vector<int> assoc_order(const std::vector<int>& ks)
    {
        // order and de-duplication a std::set/std::map of the key type imposes
        std::map<K, int> m;
        for (int k : ks)
            m.emplace(KT::get(k), k);
        std::vector<int> o;
        for (auto& e : m)
            o.push_back(e.second);
        return o;
    }

    void find_range(const std::vector<int>& ks, bool peek, int flavour, std::vector<FindRes>& out) override
    {
        (void)peek;
        out.clear();
        auto call = [&](auto& r) {
            if constexpr (kPeekEnum)
                return m_c->find_range(r, to_peek(peek));
            else if constexpr (kPeekBool)
                return m_c->find_range(r, peek);
            else
                return m_c->find_range(r);
        };
        if (flavour == F_ASSOC)
        {
            std::set<K> r;
            for (int k : ks)
                r.insert(KT::get(k));
            collect(assoc_order(ks), call(r), out);
            return;
        }
        if constexpr (kFifo)
        {
            if (flavour == F_ITER)
            {
                std::vector<K> r;
                for (int k : ks)
                    r.push_back(KT::get(k));
                collect(ks, m_c->find(r.begin(), r.end(), r.size()), out);
                return;
            }
            if (flavour == F_LIST)
            {
                std::list<K> r;
                for (int k : ks)
                    r.push_back(KT::get(k));
                collect(ks, m_c->find(r.begin(), r.end()), out);
                return;
            }
        }
        std::vector<K> r;
        for (int k : ks)
            r.push_back(KT::get(k));
        collect(ks, call(r), out);
    }

    void find_range_fill(const std::vector<int>& ks, bool peek, int flavour, std::vector<FindRes>& out) override
    {
        (void)peek;
        out.clear();
        using slot = std::conditional_t<kSet, bool, std::optional<V>>;
        // Some slots are handed in already holding a stale result: a lookup that misses must overwrite it
        // (C18: find_range_fill reports exactly what the single lookups report).
        auto stale = [](int k, size_t pos) -> slot {
            if ((static_cast<size_t>(k) + pos) % 3 != 0)
                return slot{};
            if constexpr (kSet)
                return true;
            else
                return slot{VC::make(999'000'000ull + static_cast<uint64_t>(k))};
        };
        auto call = [&](auto& r) {
            if constexpr (kPeekEnum)
                m_c->find_range_fill(r, to_peek(peek));
            else if constexpr (kPeekBool)
                m_c->find_range_fill(r, peek);
            else
                m_c->find_range_fill(r);
        };
        if (flavour == F_ASSOC)
        {
            std::map<K, slot> r;
            for (int k : ks)
                r.emplace(KT::get(k), stale(k, 0));
            call(r);
            collect(assoc_order(ks), r, out);
            return;
        }
        if constexpr (kFifo)
        {
            if (flavour == F_ITER)
            {
                std::vector<std::pair<K, slot>> r;
                for (int k : ks)
                    r.emplace_back(KT::get(k), stale(k, r.size()));
                m_c->find_range_fill(r.begin(), r.end());
                collect(ks, r, out);
                return;
            }
            if (flavour == F_LIST)
            {
                std::list<std::pair<K, slot>> r;
                for (int k : ks)
                    r.emplace_back(KT::get(k), stale(k, r.size()));
                m_c->find_range_fill(r.begin(), r.end());
                collect(ks, r, out);
                return;
            }
        }
        std::vector<std::pair<K, slot>> r;
        for (int k : ks)
            r.emplace_back(KT::get(k), stale(k, r.size()));
        call(r);
        collect(ks, r, out);
    }

    size_t clean() override
    {
        if constexpr (KIND == K_TLRU || KIND == K_UTLRU || KIND == K_UTMAP || KIND == K_UTSET)
            return m_c->clean_expired_values();
        else
            return 0;
    }
    size_t age() override
    {
        if constexpr (KIND == K_LFUDA)
            return m_c->dynamically_age();
        else
            return 0;
    }
    void update_ttl(int64_t t) override
    {
        (void)t;
        if constexpr (KIND == K_UTLRU)
            m_c->update_ttl(ms{t});
    }
    void clear() override
    {
        if constexpr (KIND == K_UTLRU || KIND == K_UTMAP)
            m_c->clear();
    }
    size_t size() override { return m_c->size(); }
    bool   empty() override { return m_c->empty(); }
    size_t capacity() override
    {
        if constexpr (KIND == K_UTMAP || KIND == K_UTSET)
            return static_cast<size_t>(-1);
        else
            return m_c->capacity();
    }
};

template<int KIND>
std::unique_ptr<IBox> make_kind(const Config& c)
{
    constexpr auto Y = cap::thread_safe::yes;
    constexpr auto N = cap::thread_safe::no;
    if (c.types == T_STRING)
    {
        if (c.sync)
            return std::make_unique<Box<KIND, std::string, std::string, Y>>(c);
        return std::make_unique<Box<KIND, std::string, std::string, N>>(c);
    }
    if (c.types == T_BIG)
    {
        if (c.sync)
            return std::make_unique<Box<KIND, uint64_t, vv::BigTracked, Y>>(c);
        return std::make_unique<Box<KIND, uint64_t, vv::BigTracked, N>>(c);
    }
    if (c.sync)
        return std::make_unique<Box<KIND, uint64_t, vv::Tracked, Y>>(c);
    return std::make_unique<Box<KIND, uint64_t, vv::Tracked, N>>(c);
}
} // namespace

#define VERIF_CAT2(a, b) a##b
#define VERIF_CAT(a, b) VERIF_CAT2(a, b)
std::unique_ptr<IBox> VERIF_CAT(make_box_kind_, VERIF_KIND)(const Config& c) { return make_kind<VERIF_KIND>(c); }
} // namespace bx
