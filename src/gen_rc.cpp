// rapidcheck side of E1: Gen<Case> per property profile, shrinking, statistics.
// This translation unit is built WITHOUT _GLIBCXX_DEBUG (librapidcheck.a is not debug-mode ABI
// compatible) and talks to the engine only through case text and a C function.
#include <rapidcheck.h>

#include <algorithm>
#include <csignal>
#include <cstdio>
#include <cstdlib>
#include <cstring>
#include <fcntl.h>
#include <fstream>
#include <map>
#include <set>
#include <sstream>
#include <string>
#include <time.h>
#include <unistd.h>
#include <vector>

extern "C" int  verif_run_case_text(const char* text, const char* property, const char* mode, int strict_f8, char* out, unsigned long out_cap);
extern "C" void __sanitizer_set_death_callback(void (*)(void)) __attribute__((weak)); // absent in the sanitizer-free "plain" build

namespace
{
enum
{
    O_INS = 0,
    O_INSR,
    O_ERA,
    O_ERAR,
    O_FIND,
    O_FINDUC,
    O_FINDR,
    O_FINDRF,
    O_CLEAN,
    O_AGE,
    O_UTTL,
    O_CLEAR,
    O_ADV,
    O_ADVTO,
    O_SCAN,
    O_OBS,
    O_REP,
    O_COUNT
};
const char* kOpName[] = {"ins", "insr", "era", "erar", "find", "finduc", "findr", "findrf", "clean", "age", "uttl", "clear", "adv", "advto", "scan", "obs", "rep"};
const char* kKindName[] = {"lru", "mru", "fifo", "lfu", "lfuda", "rr", "tlru", "utlru", "ut_map", "ut_set"};

struct GElem
{
    int       k{0};
    long long ttl{0};
};
struct GOp
{
    int                code{O_FIND};
    bool               splice{false};
    int                k{0};
    int                allow{3};
    long long          ttl{0};
    bool               peek{false};
    int                flavour{0};
    std::vector<GElem> elems;
    long long          dt{0};
    int                j{0};
    int                off{0};
    int                mode{0};
    bool               same{false};
    int                rep_m{1};
    int                rep_n{2};
};
struct GCase
{
    bool             big{false};
    bool             huge{false};
    int              kind{0};
    bool             sync{false};
    int              types{0};
    int              cap{2};
    int              extra{1}; // universe = cap + extra
    int              mlf_idx{0};
    long long        ttl{5};
    int              tick{5};
    int              ratio_idx{0};
    int              seed{1};
    int              kmode{0};
    std::vector<GOp> ops;
};

const char* kMlf[]   = {"1", "0.01", "0.1", "0.5", "2", "7.5", "100", "1e+06"};
const int   kRatioN[] = {1, 0, 1, 1, 3, 1};
const int   kRatioD[] = {2, 1, 8, 4, 4, 1};

std::string to_text(const GCase& c)
{
    std::ostringstream s;
    const bool         utx  = c.kind == 8 || c.kind == 9;
    const bool         huge = c.huge && utx;                 // populations above 1024 (slice / chunk sizes of that order)
    const bool         big  = (c.big && utx) || huge;        // large universes only for the unbounded containers
    int                uni  = huge ? 1100 + (c.seed % 1200) : big ? 70 + (c.seed % 230) : c.cap + c.extra;
    const bool         branchy = c.kind == 3 || c.kind == 4 || c.kind == 5; // lfu ties / rr: the model enumerates victims, long ranges explode
    const size_t       lim = huge ? 2400 : big ? 320 : (c.cap >= 16 && !branchy ? 128 : 8); // long ranges only where they can matter
    s << "kind " << kKindName[c.kind] << "\nsync " << (c.sync ? 1 : 0) << "\ntypes " << c.types << "\ncap " << c.cap << "\nuni " << uni << "\nmlf "
      << kMlf[c.mlf_idx] << "\nttl " << c.ttl << "\ntick " << c.tick << "\nratio " << kRatioN[c.ratio_idx] << " " << kRatioD[c.ratio_idx] << "\nseed "
      << c.seed << "\n";
    if (c.kmode)
        s << "kmode " << c.kmode << "\n";
    s << "--\n";
    for (auto& o : c.ops)
    {
        if (o.splice)
            s << "~";
        s << kOpName[o.code];
        switch (o.code)
        {
            case O_INS: s << " " << o.k % uni << " " << o.allow << " " << o.ttl << (o.same ? " 1" : ""); break;
            case O_REP: s << " " << o.rep_m << " " << o.rep_n; break;
            case O_INSR:
                s << " " << o.allow << " " << o.flavour << " " << std::min(lim, o.elems.size());
                for (size_t i = 0; i < o.elems.size() && i < lim; ++i)
                    s << " " << o.elems[i].k % uni << " " << o.elems[i].ttl;
                break;
            case O_ERA: s << " " << o.k % uni; break;
            case O_ERAR:
                s << " " << o.flavour << " " << std::min(lim, o.elems.size());
                for (size_t i = 0; i < o.elems.size() && i < lim; ++i)
                    s << " " << o.elems[i].k % uni;
                break;
            case O_FIND:
            case O_FINDUC: s << " " << o.k % uni << " " << (o.peek ? 1 : 0); break;
            case O_FINDR:
            case O_FINDRF:
                s << " " << (o.peek ? 1 : 0) << " " << o.flavour << " " << std::min(lim, o.elems.size());
                for (size_t i = 0; i < o.elems.size() && i < lim; ++i)
                    s << " " << o.elems[i].k % uni;
                break;
            case O_UTTL: s << " " << o.ttl; break;
            case O_ADV: s << " " << o.dt; break;
            case O_ADVTO: s << " " << o.j << " " << o.off; break;
            case O_SCAN: s << " " << o.mode; break;
            default: break;
        }
        s << "\n";
    }
    return s.str();
}

// ---- profiles -------------------------------------------------------------------------------------
struct Profile
{
    std::vector<int> kinds;
    int              w[O_COUNT]; // operation weights
    std::vector<std::pair<std::size_t, long long>> ttls;   // weighted TTL choices (ms)
    std::vector<std::pair<std::size_t, int>> caps;   // weighted capacities
    int              w_peek{50};    // percent of lookups that peek
    int              w_scan2{30};   // percent of explicit scans that also probe expired keys
    int              splice_pct{0}; // twin-noop: percent of ops generated as spliced no-effect candidates
    bool             long_ticks{false};
    int              huge_pct{0};   // permille of cases with a key universe above 1024 (ut_map / ut_set only)
    int              big_pct{0};    // percent of cases with a large key universe and bulk range calls (unbounded containers)
};

std::vector<int> all_kinds() { return {0, 1, 2, 3, 4, 5, 6, 7, 8, 9}; }

Profile make_profile(const std::string& name)
{
    Profile p;
    std::fill(p.w, p.w + O_COUNT, 0);
    p.kinds = all_kinds();
    //                 INS INSR ERA ERAR FIND FUC FR FRF CLEAN AGE UTTL CLEAR ADV ADVTO SCAN OBS
    int general[] = {34, 6, 10, 3, 10, 3, 4, 3, 2, 2, 1, 1, 6, 5, 2, 0};
    std::memcpy(p.w, general, sizeof general);
    p.w[O_REP] = 1;
    p.ttls = {{2, 0}, {6, 1}, {8, 2}, {8, 3}, {10, 5}, {6, 8}, {6, 50}, {4, 1000}, {1, 3600000}, {1, 5000000000ll}}; // the last two: 1 h, and > 2^32 ms
    p.caps = {{12, 1}, {20, 2}, {20, 3}, {14, 4}, {6, 5}, {4, 6}, {3, 7}, {3, 8}, {1, 16}, {1, 17}, {1, 33}, {1, 64}, {1, 100}};
    if (name == "general")
    {
        p.big_pct  = 6;
        p.huge_pct = 3;
        return p;
    }
    if (name == "ttl") // C04 C05 C16 C17
    {
        p.kinds      = {6, 7, 8, 9};
        int w[]      = {34, 5, 5, 2, 10, 0, 3, 2, 6, 0, 5, 1, 8, 16, 3, 0};
        std::memcpy(p.w, w, sizeof w);
        p.big_pct = 8;
        return p;
    }
    if (name == "ttlfull") // C16: keep the cache full with a mix of live and expired entries, few reaping lookups
    {
        p.kinds = {6, 7};
        int w[] = {50, 3, 2, 0, 3, 0, 1, 0, 2, 0, 8, 0, 8, 22, 1, 0};
        std::memcpy(p.w, w, sizeof w);
        p.w_scan2 = 0;
        p.caps    = {{6, 1}, {24, 2}, {26, 3}, {20, 4}, {8, 5}, {4, 6}};
        return p;
    }
    if (name == "clean") // C17
    {
        p.kinds = {6, 7, 8, 9};
        int w[] = {40, 4, 3, 1, 3, 0, 1, 1, 12, 0, 6, 0, 8, 20, 1, 0};
        std::memcpy(p.w, w, sizeof w);
        p.w_scan2  = 0;
        p.big_pct  = 8;
        p.huge_pct = 4;
        return p;
    }
    if (name == "recency") // C10 C13
    {
        p.kinds = name == "recency" ? std::vector<int>{0, 1, 6, 7} : p.kinds;
        int w[] = {38, 4, 4, 1, 24, 0, 8, 5, 0, 0, 1, 0, 1, 1, 1, 0};
        std::memcpy(p.w, w, sizeof w);
        p.ttls   = {{1, 3}, {1, 8}, {6, 50}, {20, 1000}};
        p.w_peek = 35;
        p.w[O_REP] = 5;
        return p;
    }
    if (name == "fifo") // C12
    {
        p.kinds = {2};
        int w[] = {40, 6, 12, 3, 14, 0, 5, 4, 0, 0, 0, 0, 0, 0, 1, 0};
        std::memcpy(p.w, w, sizeof w);
        return p;
    }
    if (name == "lfu") // C11
    {
        p.kinds = {3, 4};
        int w[] = {36, 4, 6, 1, 18, 12, 6, 4, 0, 1, 0, 0, 1, 1, 1, 0};
        std::memcpy(p.w, w, sizeof w);
        p.long_ticks = true;
        p.w_peek     = 35;
        p.w[O_REP]   = 2;
        return p;
    }
    if (name == "lfuda") // C14
    {
        p.kinds = {4};
        int w[] = {24, 3, 3, 1, 20, 8, 4, 3, 0, 14, 0, 0, 10, 22, 1, 0};
        std::memcpy(p.w, w, sizeof w);
        p.w_peek = 30;
        p.caps   = {{4, 1}, {24, 2}, {26, 3}, {20, 4}, {8, 5}, {4, 6}};
        return p;
    }
    if (name == "rr") // C15
    {
        p.kinds = {5};
        int w[] = {50, 5, 12, 3, 8, 0, 3, 2, 0, 0, 0, 0, 0, 0, 1, 0};
        std::memcpy(p.w, w, sizeof w);
        return p;
    }
    if (name == "rrstats") // C15 oracle B: the op list only decides what is interleaved between the forced evictions
    {
        p.kinds = {5};
        int w[] = {30, 0, 35, 0, 25, 0, 0, 0, 0, 0, 0, 0, 0, 0, 0, 10};
        std::memcpy(p.w, w, sizeof w);
        p.caps = {{1, 2}, {1, 3}, {1, 4}, {1, 5}, {1, 6}, {1, 7}, {1, 8}};
        return p;
    }
    if (name == "rrmass" || name == "rrmass_t") // C15 mass-survival: capacity class 300 / 5000 (/ 70000 in the thorough tier)
    {
        p.kinds = {5};
        int w[] = {1, 0, 0, 0, 1, 0, 0, 0, 0, 0, 0, 0, 0, 0, 0, 0};
        std::memcpy(p.w, w, sizeof w);
        p.w[O_REP] = 0;
        p.caps = name == "rrmass" ? std::vector<std::pair<std::size_t, int>>{{2, 3}, {2, 5}, {1, 7}} : std::vector<std::pair<std::size_t, int>>{{1, 3}, {1, 5}, {2, 7}, {2, 8}};
        return p;
    }
    if (name == "range") // C18
    {
        int w[] = {22, 16, 6, 8, 6, 2, 10, 8, 2, 2, 1, 1, 5, 5, 1, 0};
        std::memcpy(p.w, w, sizeof w);
        return p;
    }
    if (name == "noop") // C19
    {
        int w[] = {30, 5, 10, 4, 14, 5, 6, 5, 2, 3, 1, 0, 5, 6, 0, 0};
        std::memcpy(p.w, w, sizeof w);
        p.splice_pct = 40;
        return p;
    }
    if (name == "clear") // C20
    {
        p.kinds = {7, 8};
        int w[] = {36, 5, 8, 2, 10, 0, 3, 2, 3, 0, 4, 6, 7, 8, 2, 0};
        std::memcpy(p.w, w, sizeof w);
        p.big_pct  = 6;
        p.huge_pct = 15;
        return p;
    }
    return p;
}

template<typename T>
rc::Gen<T> weighted(const std::vector<std::pair<std::size_t, T>>& v)
{
    // expanded table + elementOf: uniform pick (size independent), shrinks towards the first entry
    std::vector<T> t;
    for (auto& [w, x] : v)
        for (std::size_t i = 0; i < w; ++i)
            t.push_back(x);
    return rc::gen::elementOf(t);
}

rc::Gen<int> uni_int(int lo, int hi) { return rc::gen::resize(100, rc::gen::inRange(lo, hi + 1)); }

rc::Gen<GOp> gen_op(const Profile& p)
{
    std::vector<std::pair<std::size_t, int>> codes;
    // `rep` blocks are expensive (hundreds to tens of thousands of lookups): about one case in thirty gets one
    for (int i = 0; i < O_COUNT; ++i)
        if (p.w[i] > 0)
            codes.emplace_back(static_cast<std::size_t>(p.w[i]) * (i == O_REP ? 1 : 20), i);
    auto ttl   = weighted<long long>(p.ttls);
    auto elem  = rc::gen::build<GElem>(rc::gen::set(&GElem::k, uni_int(0, 47)), rc::gen::set(&GElem::ttl, ttl));
    auto small = rc::gen::resize(8, rc::gen::container<std::vector<GElem>>(elem));
    // long ranges are expanded arithmetically from three generated numbers (generating 300 elements one by one for a
    // sixth of all operations dominated the run time); they are cut to 8 elements when printed unless the case is "big"
    auto bulk = rc::gen::map(rc::gen::tuple(weighted<int>({{3, 0}, {1, 1}}), uni_int(9, 300), uni_int(0, 2399), uni_int(1, 7), ttl),
                             [](const std::tuple<int, int, int, int, long long>& t) {
                                 std::vector<GElem> v;
                                 // one in four long ranges is very long (1030-2300 elements; only printed in full for "huge" cases)
                                 const int n = std::get<0>(t) ? 1030 + (std::get<1>(t) * 1270) / 300 : std::get<1>(t);
                                 for (int i = 0; i < n; ++i)
                                     v.push_back(GElem{(std::get<2>(t) + i * std::get<3>(t)) % 2400, std::get<4>(t)});
                                 return v;
                             });
    auto elems = rc::gen::oneOf(small, small, small, small, small, bulk);
    std::vector<std::pair<std::size_t, long long>> dts = {{2, 0},        {2, 1},        {3, 999999},    {6, 1000000},  {3, 1000001}, {6, 2000000},
                                                          {6, 3000000},  {3, 2999999},  {6, 5000000},   {2, 4999999},  {2, 5000001}, {3, 8000000},
                                                          {2, 10000000}, {2, 50000000}, {1, 1000000000}};
    return rc::gen::build<GOp>(
        rc::gen::set(&GOp::code, weighted<int>(codes)),
        rc::gen::set(&GOp::splice, rc::gen::map(uni_int(0, 99), [pct = p.splice_pct](int v) { return v < pct; })),
        rc::gen::set(&GOp::k, uni_int(0, 2399)),
        rc::gen::set(&GOp::allow, weighted<int>({{6, 3}, {2, 1}, {2, 2}})),
        rc::gen::set(&GOp::ttl, ttl),
        rc::gen::set(&GOp::peek, rc::gen::map(uni_int(0, 99), [pct = p.w_peek](int v) { return v < pct; })),
        rc::gen::set(&GOp::flavour, weighted<int>({{5, 0}, {2, 1}, {1, 2}, {1, 3}})),
        rc::gen::set(&GOp::elems, elems),
        rc::gen::set(&GOp::dt, weighted<long long>(dts)),
        rc::gen::set(&GOp::j, uni_int(0, 7)),
        rc::gen::set(&GOp::off, weighted<int>({{3, 0}, {2, -1}, {2, 1}})),
        rc::gen::set(&GOp::mode, rc::gen::map(uni_int(0, 99), [pct = p.w_scan2](int v) { return v < pct ? 2 : 1; })),
        rc::gen::set(&GOp::same, rc::gen::map(uni_int(0, 99), [](int v) { return v < 8; })),
        rc::gen::set(&GOp::rep_m, uni_int(1, 3)),
        rc::gen::set(&GOp::rep_n, std::getenv("VERIF_BIG_REPS")
                                      ? weighted<int>({{4, 2}, {2, 3}, {2, 127}, {2, 128}, {3, 254}, {3, 255}, {3, 256}, {2, 257}, {2, 510}, {2, 65535}, {2, 65536}})
                                      : weighted<int>({{4, 2}, {3, 3}, {1, 63}, {1, 64}, {1, 126}, {2, 127}, {2, 128}, {1, 129}, {2, 253}, {3, 254}, {3, 255}, {3, 256}, {2, 257}, {1, 258}, {1, 381}, {1, 382}, {1, 383}, {1, 384},
                                                       {2, 509}, {2, 510}, {2, 511}, {2, 512}, {1, 513}, {1, 765}, {1, 766}, {1, 767}, {1, 768}, {1, 1021}, {1, 1022}, {1, 1023}, {1, 1024}})));
}

rc::Gen<GCase> gen_case(const Profile& p, const std::vector<int>& kinds)
{
    std::vector<std::pair<std::size_t, int>> ticks = p.long_ticks ? std::vector<std::pair<std::size_t, int>>{{1, 5}, {1, 10}, {6, 1000}}
                                                                  : std::vector<std::pair<std::size_t, int>>{{3, 1}, {4, 2}, {5, 5}, {3, 10}};
    return rc::gen::build<GCase>(
        rc::gen::set(&GCase::kind, rc::gen::elementOf(kinds)),
        rc::gen::set(&GCase::big, rc::gen::map(uni_int(0, 99), [pct = p.big_pct](int v) { return v < pct; })),
        rc::gen::set(&GCase::huge, rc::gen::map(uni_int(0, 999), [pm = p.huge_pct](int v) { return v < pm; })),
        rc::gen::set(&GCase::sync, rc::gen::map(uni_int(0, 3), [](int v) { return v == 0; })),
        rc::gen::set(&GCase::types, weighted<int>({{5, 0}, {2, 1}, {2, 2}})),
        rc::gen::set(&GCase::cap, weighted<int>(p.caps)),
        rc::gen::set(&GCase::extra, weighted<int>({{3, 1}, {4, 2}, {3, 3}})),
        rc::gen::set(&GCase::mlf_idx, weighted<int>({{10, 0}, {1, 1}, {1, 2}, {2, 3}, {2, 4}, {1, 5}, {1, 6}, {1, 7}})),
        rc::gen::set(&GCase::ttl, weighted<long long>(p.ttls)),
        rc::gen::set(&GCase::tick, weighted<int>(ticks)),
        rc::gen::set(&GCase::ratio_idx, weighted<int>({{4, 0}, {1, 1}, {1, 2}, {2, 3}, {2, 4}, {1, 5}})),
        rc::gen::set(&GCase::seed, uni_int(1, 65535)),
        rc::gen::set(&GCase::kmode, weighted<int>({{8, 0}, {1, 1}, {1, 2}})),
        rc::gen::set(&GCase::ops, rc::gen::container<std::vector<GOp>>(gen_op(p))));
}

// ---- statistics -----------------------------------------------------------------------------------
struct Stats
{
    long                        evaluations{0};
    long                        generated{0};
    long                        nontrivial{0};
    std::set<unsigned long long> hashes;
    std::map<std::string, long> labels;
    std::map<std::string, long> cases_with_label;
    std::map<std::string, long> foreign;
    std::map<std::string, long> per_kind, per_kind_nt;
    std::vector<std::string>    samples;
    std::string                 fail_pred, fail_tags, fail_msg, fail_text;
    long                        fail_step{-1};
    bool                        failed{false};
    std::vector<std::string>    foreign_samples;
};

double mono_now_s()
{
    // the real monotonic clock (std::chrono::steady_clock is the harness-owned virtual clock)
    timespec ts;
    clock_gettime(CLOCK_MONOTONIC, &ts);
    return static_cast<double>(ts.tv_sec) + static_cast<double>(ts.tv_nsec) * 1e-9;
}
unsigned long long fnv(const std::string& s)
{
    unsigned long long h = 1469598103934665603ull;
    for (unsigned char ch : s)
    {
        h ^= ch;
        h *= 1099511628211ull;
    }
    return h;
}

std::string g_outdir = ".";
int         g_worker = 0;
char        g_current[1 << 16];
std::size_t g_current_len = 0;

void dump_current()
{
    char path[512];
    std::snprintf(path, sizeof path, "%s/crash-w%d.case", g_outdir.c_str(), g_worker);
    int fd = ::open(path, O_WRONLY | O_CREAT | O_TRUNC, 0644);
    if (fd >= 0)
    {
        ssize_t r = ::write(fd, g_current, g_current_len);
        (void)r;
        ::close(fd);
    }
}
void on_abort(int)
{
    dump_current();
    std::signal(SIGABRT, SIG_DFL);
}

void write_stats(const Stats& st, const std::string& path)
{
    std::ofstream o(path);
    o << "evaluations " << st.evaluations << "\n";
    o << "generated " << st.generated << "\n";
    o << "nontrivial " << st.nontrivial << "\n";
    for (auto h : st.hashes)
        o << "hash " << h << "\n";
    for (auto& [k, v] : st.labels)
        o << "label " << k << " " << v << "\n";
    for (auto& [k, v] : st.cases_with_label)
        o << "cases_with " << k << " " << v << "\n";
    for (auto& [k, v] : st.foreign)
        o << "foreign " << k << " " << v << "\n";
    for (auto& [k, v] : st.per_kind)
        o << "kind " << k << " " << v << " " << (st.per_kind_nt.count(k) ? st.per_kind_nt.at(k) : 0) << "\n";
    for (auto& s : st.samples)
        o << "sample<<<\n" << s << ">>>\n";
    for (auto& s : st.foreign_samples)
        o << "foreign_sample<<<\n" << s << ">>>\n";
    if (st.failed)
    {
        o << "failed 1\n";
        o << "fail_pred " << st.fail_pred << "\n";
        o << "fail_tags " << st.fail_tags << "\n";
        o << "fail_step " << st.fail_step << "\n";
        o << "fail_msg " << st.fail_msg << "\n";
        o << "fail_case<<<\n" << st.fail_text << ">>>\n";
    }
}
} // namespace

namespace rc
{
template<>
struct Arbitrary<GCase>
{
    static Gen<GCase> arbitrary() { return gen_case(make_profile("general"), all_kinds()); }
};
} // namespace rc
void showValue(const GCase& c, std::ostream& os) { os << "\n" << to_text(c); }

int gen_main(int argc, char** argv)
{
    std::string property = "C01", mode = "model", profile = "general", kinds_arg;
    bool        strict_f8 = false;
    for (int i = 1; i < argc; ++i)
    {
        std::string a = argv[i];
        auto        nxt = [&]() -> std::string { return i + 1 < argc ? argv[++i] : ""; };
        if (a == "--property")
            property = nxt();
        else if (a == "--mode")
            mode = nxt();
        else if (a == "--profile")
            profile = nxt();
        else if (a == "--kinds")
            kinds_arg = nxt();
        else if (a == "--out")
            g_outdir = nxt();
        else if (a == "--worker")
            g_worker = std::atoi(nxt().c_str());
        else if (a == "--strict-f8")
            strict_f8 = true;
    }
    Profile          prof  = make_profile(profile);
    std::vector<int> kinds = prof.kinds;
    if (!kinds_arg.empty())
    {
        kinds.clear();
        std::istringstream ks(kinds_arg);
        std::string        t;
        while (std::getline(ks, t, ','))
            for (int k = 0; k < 10; ++k)
                if (t == kKindName[k])
                    kinds.push_back(k);
    }
    if (__sanitizer_set_death_callback)
        __sanitizer_set_death_callback(dump_current);
    std::signal(SIGABRT, on_abort);

    Stats             st;
    static char       out[1 << 16];
    const auto        gen = gen_case(prof, kinds);
    const std::string failpath = g_outdir + "/fail-w" + std::to_string(g_worker) + ".case";

    long   shrink_evals = 0;
    double fail_t0      = 0;
    bool ok = rc::check(property + " " + mode + " " + profile, [&]() {
        const GCase gc   = *gen;
        // bound the shrinking phase: once the budget is used up every further candidate "passes", which ends the search
        if (st.failed && (++shrink_evals > 4000 || mono_now_s() - fail_t0 > 25.0))
            return;
        std::string text = to_text(gc);
        g_current_len    = std::min(text.size(), sizeof g_current);
        std::memcpy(g_current, text.data(), g_current_len);
        int v = verif_run_case_text(text.c_str(), property.c_str(), mode.c_str(), strict_f8 ? 1 : 0, out, sizeof out);
        ++st.evaluations;
        if (!st.failed)
            ++st.generated;
        // parse the report
        std::istringstream       rs(out);
        std::string              line, pred, tags, msg;
        long                     step = -1;
        bool                     nt   = false;
        std::vector<std::string> labs;
        while (std::getline(rs, line))
        {
            if (line.rfind("nontrivial ", 0) == 0)
                nt = line[11] == '1';
            else if (line.rfind("pred ", 0) == 0)
                pred = line.substr(5);
            else if (line.rfind("tags ", 0) == 0)
                tags = line.substr(5);
            else if (line.rfind("step ", 0) == 0)
                step = std::atol(line.c_str() + 5);
            else if (line.rfind("msg ", 0) == 0)
                msg = line.substr(4);
            else if (line.rfind("L ", 0) == 0 && !st.failed)
            {
                std::istringstream ls(line.substr(2));
                std::string        k;
                long               n = 0;
                ls >> k >> n;
                st.labels[k] += n;
                st.cases_with_label[k] += 1;
            }
        }
        if (!st.failed)
        {
            st.per_kind[kKindName[gc.kind]] += 1;
            if (v == 2)
            {
                st.foreign[tags.empty() ? "?" : tags] += 1;
                if (st.foreign_samples.size() < 3)
                    st.foreign_samples.push_back("# foreign failure: " + pred + " [" + tags + "] step " + std::to_string(step) + ": " + msg + "\n" + text);
            }
            if (nt)
            {
                ++st.nontrivial;
                st.per_kind_nt[kKindName[gc.kind]] += 1;
                st.hashes.insert(fnv(text));
                if (st.samples.size() < 4 && (st.nontrivial % 97 == 1))
                    st.samples.push_back(text);
            }
        }
        if (v == 1)
        {
            // while shrinking, only the same predicate counts as "still failing"
            if (!st.failed || pred == st.fail_pred)
            {
                if (!st.failed)
                    fail_t0 = mono_now_s();
                st.failed    = true;
                st.fail_pred = pred;
                st.fail_tags = tags;
                st.fail_msg  = msg;
                st.fail_step = step;
                st.fail_text = text;
                std::ofstream f(failpath);
                f << "# property " << property << " mode " << mode << "\n# predicate " << pred << " [" << tags << "] at step " << step << "\n# " << msg << "\n"
                  << text;
                RC_FAIL(pred + ": " + msg);
            }
        }
    });
    write_stats(st, g_outdir + "/stats-w" + std::to_string(g_worker) + ".txt");
    return ok ? 0 : 1;
}
