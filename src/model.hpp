// Reference specification (DESIGN.md §3): abstract state + the insert rule shared by the observed
// (single call) and predicted (inside a range call) paths.  Written from the property statements;
// where they leave freedom (rr victim, lfu ties, expired-but-unreaped entries) the rule asks a
// Chooser, which is answered either from observation or by exhaustive branching.
#pragma once
#include "box.hpp"

#include <algorithm>
#include <cstdint>
#include <map>
#include <set>
#include <sstream>
#include <string>
#include <vector>

namespace md
{
struct Entry
{
    uint64_t val{0};
    int64_t  deadline{INT64_MAX}; // ns; INT64_MAX for non-TTL kinds
    uint64_t use{0};              // recency stamp (insert / successful update / successful non-peek lookup)
    uint64_t ins{0};              // insertion stamp (creation of the entry)
    uint64_t count{0};            // use count (lfu/lfuda)
    int64_t  touched{0};          // lfuda: time of last use or aging
    // bookkeeping for labels only
    bool moved_deadline{false};
    bool written_after_uttl{false};
};

struct Chooser
{
    virtual ~Chooser() = default;
    // allow::update addressed to an expired, possibly still resident entry: C09 allows both results
    virtual bool zombie_update() = 0;
    // allow::insert addressed to an entry that died at its own write instant earlier in the same
    // ut_map/ut_set call (known finding F8): only asked when the exclusion is active
    virtual bool doa_insert() = 0;
    // which of the permitted victims went; `cands` ⊆ live keys
    virtual int victim(const std::vector<int>& cands) = 0;
};

struct InsertEffect
{
    bool result{false};
    bool created{false};  // a key that was not live became resident (needed a slot or revived a zombie)
    bool updated{false};
    bool evicted{false};
    int  victim{-1};
    bool doa{false};      // the written entry is expired at its own write instant
    bool was_zombie{false};
    bool was_live{false};
    bool aged_before_evict{false};
};

struct Model
{
    int      kind{0};
    bx::Caps caps;
    size_t   cap{0}; // SIZE_MAX for ut_map/ut_set
    int64_t  ttl_cfg_ms{0};
    int64_t  tick_ns{0};
    int      ratio_num{1}, ratio_den{2};

    std::map<int, Entry> live;
    std::set<int>        Z; // expired and not observably removed (superset of the resident expired entries)
    std::set<int>        dead; // keys whose most recent entry ended by expiry (attribution: serving such a key is C04, not C01)
    uint64_t             stamp{0};
    bool                 aged_ever{false};
    bool                 uttl_called{false};
    bool                 any_victim_policy{false}; // relaxation used only to attribute a range mismatch
    bool                 f8_exclusion{true};

    bool bounded() const { return caps.bounded; }
    bool ttl_kind() const { return caps.ttl(); }
    bool utx() const { return kind == bx::K_UTMAP || kind == bx::K_UTSET; }

    void init(const bx::Config& c)
    {
        kind       = c.kind;
        caps       = bx::caps_of(kind);
        cap        = caps.bounded ? c.cap : static_cast<size_t>(-1);
        ttl_cfg_ms = c.ttl_ms;
        tick_ns    = c.tick_ms * 1'000'000;
        ratio_num  = c.ratio_num;
        ratio_den  = c.ratio_den;
    }

    // entries whose deadline has passed become zombies (inclusive boundary, C04)
    int expire(int64_t now)
    {
        if (!ttl_kind())
            return 0;
        int n = 0;
        for (auto it = live.begin(); it != live.end();)
        {
            if (it->second.deadline <= now)
            {
                Z.insert(it->first);
                dead.insert(it->first);
                it = live.erase(it);
                ++n;
            }
            else
                ++it;
        }
        return n;
    }

    // ut_map / ut_set purge every expired entry at the start of every call (C17)
    void call_start_purge()
    {
        if (utx())
            Z.clear();
    }

    uint64_t age_count(uint64_t c) const { return (c * static_cast<uint64_t>(ratio_num)) / static_cast<uint64_t>(ratio_den); }

    // aging point (C14): every live entry idle for strictly longer than the tick decays; returns how many
    size_t age(int64_t now, bool* mixed = nullptr, bool* mixed_hard = nullptr)
    {
        size_t n = 0, total = live.size();
        // label support: an entry older by insertion than an idle one was used more recently
        uint64_t min_ins_fresh = UINT64_MAX, max_ins_idle = 0;
        for (auto& [k, e] : live)
        {
            (void)k;
            if (e.touched + tick_ns < now)
            {
                e.count   = age_count(e.count);
                e.touched = now;
                ++n;
                max_ins_idle = std::max(max_ins_idle, e.ins);
            }
            else
                min_ins_fresh = std::min(min_ins_fresh, e.ins);
        }
        if (n > 0)
            aged_ever = true;
        if (mixed)
            *mixed = (n > 0 && n < total);
        if (mixed_hard)
            *mixed_hard = (n > 0 && n < total && min_ins_fresh < max_ins_idle);
        return n;
    }

    std::vector<int> victim_candidates() const
    {
        std::vector<int> c;
        if (live.empty())
            return c;
        if (any_victim_policy || kind == bx::K_RR)
        {
            for (auto& [k, e] : live)
            {
                (void)e;
                c.push_back(k);
            }
            return c;
        }
        switch (kind)
        {
            case bx::K_LRU:
            case bx::K_TLRU:
            case bx::K_UTLRU:
            {
                auto b = std::min_element(live.begin(), live.end(), [](auto& a, auto& b) { return a.second.use < b.second.use; });
                c.push_back(b->first);
                break;
            }
            case bx::K_MRU:
            {
                auto b = std::max_element(live.begin(), live.end(), [](auto& a, auto& b) { return a.second.use < b.second.use; });
                c.push_back(b->first);
                break;
            }
            case bx::K_FIFO:
            {
                auto b = std::min_element(live.begin(), live.end(), [](auto& a, auto& b) { return a.second.ins < b.second.ins; });
                c.push_back(b->first);
                break;
            }
            case bx::K_LFU:
            case bx::K_LFUDA:
            {
                uint64_t m = UINT64_MAX;
                for (auto& [k, e] : live)
                {
                    (void)k;
                    m = std::min(m, e.count);
                }
                for (auto& [k, e] : live)
                    if (e.count == m)
                        c.push_back(k);
                break;
            }
            default: break;
        }
        return c;
    }

    void touch(Entry& e, int64_t now)
    {
        e.use = ++stamp;
        e.count += 1;
        e.touched = now;
    }

    // The insert rule for one (key, value, allow, ttl) at instant `now`.
    InsertEffect insert_rule(int64_t now, int k, uint64_t v, int allow, int64_t ttl_ms, Chooser& ch)
    {
        InsertEffect fx;
        const bool   upd = (allow & bx::A_UPDATE) != 0;
        const bool   ins = (allow & bx::A_INSERT) != 0;
        int64_t      deadline = INT64_MAX;
        if (caps.per_call_ttl)
            deadline = now + ttl_ms * 1'000'000;
        else if (caps.uniform_ttl)
            deadline = now + ttl_cfg_ms * 1'000'000;
        const bool doa = ttl_kind() && deadline <= now;

        auto lit = live.find(k);
        if (lit != live.end())
        {
            fx.was_live = true;
            if (!upd)
            {
                fx.result = false; // C09: rejected, nothing changes
                return fx;
            }
            Entry& e = lit->second;
            if (ttl_kind() && e.deadline != deadline)
                e.moved_deadline = true;
            e.val               = v;
            e.deadline          = deadline;
            e.written_after_uttl = uttl_called;
            touch(e, now);
            fx.result  = true;
            fx.updated = true;
            if (doa)
            {
                fx.doa = true;
                Z.insert(k);
                dead.insert(k);
                live.erase(lit);
            }
            return fx;
        }

        const bool zombie = Z.count(k) != 0;
        fx.was_zombie     = zombie;
        if (zombie)
        {
            if (ins)
            {
                if (utx() && f8_exclusion)
                {
                    // only reachable inside one ut_map/ut_set call at TTL 0 (F8): either result tolerated
                    if (!ch.doa_insert())
                    {
                        fx.result = false;
                        return fx;
                    }
                }
                // C09: the key has no live entry, so an insert-capable call must succeed
            }
            else
            {
                // update only: may succeed (entry live again) or fail (key stays absent)
                if (!ch.zombie_update())
                {
                    fx.result = false;
                    return fx;
                }
            }
        }
        else if (!ins)
        {
            fx.result = false; // C09: update never creates an entry
            return fx;
        }

        // a non-live key becomes resident
        fx.result  = true;
        fx.created = true;
        if (bounded() && live.size() >= cap)
        {
            if (kind == bx::K_LFUDA)
            {
                age(now);
                fx.aged_before_evict = true;
            }
            auto cands = victim_candidates();
            int  vk    = ch.victim(cands);
            fx.evicted = true;
            fx.victim  = vk;
            live.erase(vk);
        }
        Z.erase(k);
        dead.erase(k);
        Entry e;
        e.val               = v;
        e.deadline          = deadline;
        e.use               = ++stamp;
        e.ins               = ++stamp;
        e.count             = 1;
        e.touched           = now;
        e.written_after_uttl = uttl_called;
        if (doa)
        {
            fx.doa = true;
            Z.insert(k);
            dead.insert(k);
        }
        else
            live[k] = e;
        return fx;
    }

    std::string signature() const
    {
        std::ostringstream s;
        for (auto& [k, e] : live)
            s << k << ":" << e.val << ":" << e.deadline << ":" << e.use << ":" << e.ins << ":" << e.count << ":" << e.touched << ";";
        s << "|";
        for (int k : Z)
            s << k << ",";
        s << "|" << stamp;
        return s.str();
    }
};
} // namespace md
