// Type-erased view of the ten containers: every engine (sequential model/twin, libFuzzer,
// scheduler, TSan) drives containers through this interface, so the oracle code is compiled once
// and only the thin adapters are instantiated per container / key type / value type / thread_safe.
#pragma once
#include <cstddef>
#include <cstdint>
#include <memory>
#include <string>
#include <vector>

namespace bx
{
enum Kind
{
    K_LRU = 0,
    K_MRU,
    K_FIFO,
    K_LFU,
    K_LFUDA,
    K_RR,
    K_TLRU,
    K_UTLRU,
    K_UTMAP,
    K_UTSET,
    K_COUNT
};
inline const char* kind_name(int k)
{
    static const char* n[] = {"lru", "mru", "fifo", "lfu", "lfuda", "rr", "tlru", "utlru", "ut_map", "ut_set"};
    return (k >= 0 && k < K_COUNT) ? n[k] : "?";
}
inline int kind_from(const std::string& s)
{
    for (int k = 0; k < K_COUNT; ++k)
        if (s == kind_name(k))
            return k;
    return -1;
}

// allow bits as in cappuccino::allow
enum
{
    A_INSERT = 1,
    A_UPDATE = 2,
    A_BOTH   = 3
};

// container flavours for range calls
enum
{
    F_VEC  = 0, // std::vector of pairs / keys
    F_ASSOC = 1, // std::map<key, value> / std::set<key> / std::map<key, optional<value>>
    F_ITER = 2, // fifo only: iterator pair over a std::vector
    F_LIST = 3  // fifo only: iterator pair over a std::list
};

// type variants
enum
{
    T_TRACKED = 0, // uint64 keys, Tracked values
    T_STRING  = 1, // std::string keys and values
    T_BIG     = 2  // uint64 keys, BigTracked values (> 256 bytes, torn copies recognisable)
};

struct Caps
{
    bool has_peek{false};       // lookups take a peek argument
    bool has_uc{false};         // find_with_use_count
    bool has_clean{false};      // clean_expired_values
    bool has_age{false};        // dynamically_age
    bool has_update_ttl{false}; // update_ttl
    bool has_clear{false};      // clear
    bool per_call_ttl{false};   // tlru: TTL is an argument of insert
    bool uniform_ttl{false};    // utlru/ut_map/ut_set: TTL configured on the container
    bool bounded{true};         // has capacity()
    bool is_set{false};         // ut_set: no values
    bool fifo_iter{false};      // iterator-pair overloads
    bool ttl() const { return per_call_ttl || uniform_ttl; }
};
Caps caps_of(int kind);

struct Config
{
    int      kind{K_LRU};
    bool     sync{false};
    int      types{T_TRACKED};
    size_t   cap{2};
    float    mlf{1.0f};
    int64_t  ttl_ms{5};  // uniform TTL (utlru, ut_map, ut_set)
    int64_t  tick_ms{5}; // lfuda
    int      ratio_num{1}, ratio_den{2};
    uint64_t seed{1};
    int      kmode{0}; // key table variant (vv::key_mode)
};

struct KV
{
    int      k;
    uint64_t v;
    int64_t  ttl_ms;
};
struct FindRes
{
    int      k;   // key index the result is reported for (-1: the container reported some other key)
    bool     hit;
    uint64_t v;
};

struct IBox
{
    virtual ~IBox() = default;
    virtual bool   insert(int k, uint64_t v, int allow, int64_t ttl_ms)                   = 0;
    virtual size_t insert_range(const std::vector<KV>& kvs, int allow, int flavour)        = 0;
    virtual bool   erase(int k)                                                            = 0;
    virtual size_t erase_range(const std::vector<int>& ks, int flavour)                    = 0;
    virtual bool   find(int k, bool peek, uint64_t& v)                                     = 0;
    virtual bool   find_uc(int k, bool peek, uint64_t& v, size_t& uc)                      = 0;
    virtual void   find_range(const std::vector<int>& ks, bool peek, int flavour, std::vector<FindRes>& out)      = 0;
    virtual void   find_range_fill(const std::vector<int>& ks, bool peek, int flavour, std::vector<FindRes>& out) = 0;
    virtual size_t clean()                                                                 = 0;
    virtual size_t age()                                                                   = 0;
    virtual void   update_ttl(int64_t ms)                                                  = 0;
    virtual void   clear()                                                                 = 0;
    virtual size_t size()                                                                  = 0;
    virtual bool   empty()                                                                 = 0;
    virtual size_t capacity()                                                              = 0;
};

// implemented once per container in adapters.cpp (compiled per kind)
std::unique_ptr<IBox> make_box(const Config& cfg);

// order of key indices as the key type orders them (needed for the ordered-associative flavours)
bool key_less(int types, int a, int b);
} // namespace bx
