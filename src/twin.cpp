// twin modes (C18, C19, C20) and the rr histogram mode (C15)
#include "engine.hpp"
namespace en
{
Result run_twin(const cs::Case&, const Options&) { return Result{}; }
Result run_stats_rr(const cs::Case&, const Options&) { return Result{}; }
} // namespace en
