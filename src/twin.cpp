// stats-rr mode (C15, oracle B): the spread of rr_cache's victim choice over many evictions.
// For one capacity c and one RNG seed, N = 400*c evicting inserts are made (interleaved with erases+refills,
// updates and lookups taken cyclically from the case's operation list).  For every eviction the victim's rank
// by insertion age among the residents is recorded.  Required: exactly one prior resident disappears each
// time; every rank 0..c-1 is chosen at least once and none every time; no entry survives 64*c consecutive
// evictions.  For a uniform choice the probability of a false alarm is below c*exp(-400).
#include "engine.hpp"
#include "values.hpp"
#include "vt.hpp"

#include <algorithm>
#include <cmath>
#include <sstream>

namespace en
{
// "mass" variant: a large capacity c (300 / 5 000 / 70 000 / 140 000), 30*c evicting inserts of fresh keys, and then NOT ONE of the original c
// residents may be left: for a uniform choice the expected number of survivors is c*exp(-30) < 1e-8.  Catches victim draws that can
// only reach part of a large cache (truncated random numbers, key-derived slots) which the rank histogram at capacity <= 8 cannot see.
Result run_stats_rr_mass(const cs::Case& c, const Options& opt)
{
    Result     res;
    bx::Config cfg = c.cfg;
    cfg.kind       = bx::K_RR;
    const size_t cap = cfg.cap <= 3 ? 300 : cfg.cap <= 5 ? 5000 : cfg.cap <= 7 ? 70000 : 140000;
    cfg.cap        = cap;
    cfg.mlf        = 1.0f;
    vt::reset(cfg.seed);
    vv::key_mode().store(cfg.kmode);
    auto box = bx::make_box(cfg);
    auto fail = [&](const std::string& pred, const std::string& msg) {
        res.verdict = std::string("C15").find(opt.property) != std::string::npos ? V_VIOLATION : V_FOREIGN;
        res.pred    = pred;
        res.tags    = "C15";
        res.msg     = msg;
        res.step    = 0;
        return res;
    };
    for (size_t k = 0; k < cap; ++k)
        box->insert(static_cast<int>(k), k + 1, bx::A_BOTH, 0);
    const size_t E = 30 * cap;
    for (size_t j = 0; j < E; ++j)
        box->insert(static_cast<int>(cap + j), cap + j + 1, bx::A_BOTH, 0);
    if (box->size() != cap)
        return fail("rr_mass_size", "size() = " + std::to_string(box->size()) + " after " + std::to_string(E) + " evicting inserts at capacity " + std::to_string(cap));
    size_t   survivors = 0;
    uint64_t v         = 0;
    for (size_t k = 0; k < cap; ++k)
        if (box->find(static_cast<int>(k), false, v))
            ++survivors;
    res.labels["stats_mass_runs"] += 1;
    res.labels["stats_mass_evictions"] += static_cast<long>(E);
    if (survivors != 0)
        return fail("rr_mass_survivors", std::to_string(survivors) + " of the original " + std::to_string(cap) + " residents survived " + std::to_string(E) +
                                             " evictions (key mode " + std::to_string(cfg.kmode) + "): part of the cache is never chosen");
    res.nontrivial = true;
    return res;
}

Result run_stats_rr(const cs::Case& c, const Options& opt)
{
    if (opt.mode == "stats-rr-mass")
        return run_stats_rr_mass(c, opt);
    Result      res;
    bx::Config  cfg = c.cfg;
    cfg.kind        = bx::K_RR;
    vv::key_mode().store(cfg.kmode);
    if (cfg.cap < 2)
        cfg.cap = 2;
    if (cfg.cap > 8)
        cfg.cap = 8;
    const size_t cap = cfg.cap;
    vt::reset(cfg.seed);
    auto box = bx::make_box(cfg);
    auto fail = [&](const std::string& tags, const std::string& pred, const std::string& msg, int step) {
        res.verdict = tags.find(opt.property) != std::string::npos ? V_VIOLATION : V_FOREIGN;
        res.pred    = pred;
        res.tags    = tags;
        res.msg     = msg;
        res.step    = step;
        return res;
    };
    std::vector<int>  resident; // insertion order, oldest first
    std::vector<long> survived(vv::kMaxKeys, 0);
    uint64_t          vseq = 1;
    auto fresh = [&]() {
        for (int k = 0; k < vv::kMaxKeys; ++k)
            if (std::find(resident.begin(), resident.end(), k) == resident.end())
                return k;
        return -1;
    };
    while (resident.size() < cap)
    {
        int k = fresh();
        box->insert(k, vseq++, bx::A_BOTH, 0);
        resident.push_back(k);
    }
    const long        N = 400 * static_cast<long>(cap);
    std::vector<long> hist(cap, 0);
    size_t            opi = 0;
    for (long i = 0; i < N; ++i)
    {
        if (!c.ops.empty())
        {
            const cs::Op& o = c.ops[opi++ % c.ops.size()];
            const size_t  r = static_cast<size_t>(o.k) % resident.size();
            uint64_t      v = 0;
            switch (o.code)
            {
                case cs::O_ERA:
                case cs::O_ERAR:
                {
                    int k = resident[r];
                    if (!box->erase(k))
                        return fail("C03", "stats_erase_resident", "erase of resident key failed", static_cast<int>(i));
                    resident.erase(resident.begin() + static_cast<long>(r));
                    survived[static_cast<size_t>(k)] = 0;
                    int n = fresh();
                    box->insert(n, vseq++, bx::A_BOTH, 0);
                    resident.push_back(n);
                    survived[static_cast<size_t>(n)] = 0;
                    res.labels["stats_erase_refill"] += 1;
                    break;
                }
                case cs::O_INS:
                case cs::O_INSR:
                    box->insert(resident[r], vseq++, bx::A_UPDATE, 0);
                    res.labels["stats_updates"] += 1;
                    break;
                case cs::O_FIND:
                case cs::O_FINDR:
                case cs::O_FINDRF:
                    box->find(resident[r], false, v);
                    res.labels["stats_lookups"] += 1;
                    break;
                default: break;
            }
        }
        // all residents must still be there (nothing but the evicting insert removes entries)
        int n = fresh();
        if (!box->insert(n, vseq++, bx::A_BOTH, 0))
            return fail("C09", "stats_insert", "insert_or_update failed", static_cast<int>(i));
        std::vector<size_t> missing;
        for (size_t r = 0; r < resident.size(); ++r)
        {
            uint64_t v = 0;
            if (!box->find(resident[r], false, v))
                missing.push_back(r);
        }
        uint64_t v = 0;
        if (!box->find(n, false, v))
            return fail("C15,C03", "rr_evicted_the_inserted_key", "the key being inserted is not resident after the insert", static_cast<int>(i));
        if (missing.size() != 1 || box->size() != cap)
            return fail("C15,C03", "rr_one_prior_resident", "an evicting insert removed " + std::to_string(missing.size()) + " prior residents, size()=" +
                                                                std::to_string(box->size()), static_cast<int>(i));
        hist[missing[0]] += 1;
        int vk = resident[missing[0]];
        resident.erase(resident.begin() + static_cast<long>(missing[0]));
        survived[static_cast<size_t>(vk)] = 0;
        for (int k : resident)
            if (++survived[static_cast<size_t>(k)] > 64 * static_cast<long>(cap))
                return fail("C15", "rr_resident_immune", "key " + std::to_string(k) + " survived more than " + std::to_string(64 * cap) + " consecutive evictions",
                            static_cast<int>(i));
        resident.push_back(n);
        survived[static_cast<size_t>(n)] = 0;
    }
    std::ostringstream hs;
    double             chi = 0, ex = static_cast<double>(N) / static_cast<double>(cap);
    for (size_t r = 0; r < cap; ++r)
    {
        hs << hist[r] << " ";
        chi += (static_cast<double>(hist[r]) - ex) * (static_cast<double>(hist[r]) - ex) / ex;
    }
    for (size_t r = 0; r < cap; ++r)
    {
        if (hist[r] == 0)
            return fail("C15", "rr_rank_never_chosen", "over " + std::to_string(N) + " evictions at capacity " + std::to_string(cap) + " the resident of insertion rank " +
                                                           std::to_string(r) + " was never the victim; histogram " + hs.str(), static_cast<int>(N));
        if (hist[r] == N)
            return fail("C15", "rr_rank_always_chosen", "rank " + std::to_string(r) + " always chosen; histogram " + hs.str(), static_cast<int>(N));
    }
    res.labels["stats_evictions"] += N;
    res.labels["stats_chi2_x100_sum"] += static_cast<long>(chi * 100);
    res.labels["stats_runs"] += 1;
    if (chi > 3.0 * static_cast<double>(cap))
        res.labels["stats_chi2_above_3c"] += 1;
    res.nontrivial = res.labels["stats_erase_refill"] >= 1;
    return res;
}
} // namespace en
