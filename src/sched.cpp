// E3: schedule engine (C06).  Worker threads are real std::threads but only the holder of a baton
// runs; schedule points are the invocation of every operation and the hook before every lock
// acquisition (src change: lock.hpp, guard CAPPUCCINO_VERIF_HOOKS).  The schedule is part of the
// case, so a run is deterministic and replayable.  Oracle: the concurrent history (results of the
// concurrent operations and of a sequential suffix that makes the state left behind observable) must
// equal what SOME sequential order of the same operations - consistent with program order and with
// real-time order - produces when executed by one thread on a fresh instance.
//
//   sched gen    --property C06 --mode sched --profile P --out DIR --worker W     (rapidcheck; RC_PARAMS)
//   sched replay --property C06 [--mode sched] file.prog
#include <rapidcheck.h>

#include "exec.hpp"
#include "values.hpp"
#include "vt.hpp"

#include <atomic>
#include <condition_variable>
#include <csignal>
#include <cstdio>
#include <cstdlib>
#include <cstring>
#include <fcntl.h>
#include <fstream>
#include <functional>
#include <map>
#include <mutex>
#include <set>
#include <thread>
#include <time.h>
#include <unistd.h>

#ifdef VERIF_TSAN_SCHED
extern "C" void AnnotateIgnoreSyncBegin(const char* file, int line);
extern "C" void AnnotateIgnoreSyncEnd(const char* file, int line);
extern "C" void AnnotateIgnoreReadsBegin(const char* file, int line);
extern "C" void AnnotateIgnoreReadsEnd(const char* file, int line);
extern "C" void AnnotateIgnoreWritesBegin(const char* file, int line);
extern "C" void AnnotateIgnoreWritesEnd(const char* file, int line);
// RAII: inside, ThreadSanitizer neither records memory accesses nor derives happens-before from synchronisation.
// Used around every piece of scheduler code, so the baton hand-over does not order the worker threads for TSan:
// the only synchronisation it sees is the containers' own.
struct TsanBlind
{
    TsanBlind()
    {
        AnnotateIgnoreSyncBegin(__FILE__, __LINE__);
        AnnotateIgnoreReadsBegin(__FILE__, __LINE__);
        AnnotateIgnoreWritesBegin(__FILE__, __LINE__);
    }
    ~TsanBlind()
    {
        AnnotateIgnoreWritesEnd(__FILE__, __LINE__);
        AnnotateIgnoreReadsEnd(__FILE__, __LINE__);
        AnnotateIgnoreSyncEnd(__FILE__, __LINE__);
    }
};
#define VERIF_TSAN_BLIND() TsanBlind verif_tsan_blind_
#else
#define VERIF_TSAN_BLIND() ((void)0)
#endif

namespace
{
using cs::Op;

// ---------------------------------------------------------------------------------------------
// program
// ---------------------------------------------------------------------------------------------
struct Program
{
    bx::Config                   cfg;
    int                          uni{3};
    std::vector<Op>              prefix;
    std::vector<std::vector<Op>> threads;
    std::vector<Op>              suffix;
    std::vector<int>             schedule;
    std::vector<std::vector<int>> more_schedules; // additional generated schedules (not part of the replay text)
};

std::string to_text(const Program& p)
{
    std::ostringstream s;
    const auto&        g = p.cfg;
    s << "kind " << bx::kind_name(g.kind) << "\nsync 1\ntypes " << g.types << "\ncap " << g.cap << "\nuni " << p.uni << "\nmlf " << g.mlf << "\nttl " << g.ttl_ms
      << "\ntick " << g.tick_ms << "\nratio " << g.ratio_num << " " << g.ratio_den << "\nseed " << g.seed << "\n--\n";
    for (auto& o : p.prefix)
        s << "p " << cs::op_to_text(o) << "\n";
    for (size_t t = 0; t < p.threads.size(); ++t)
        for (auto& o : p.threads[t])
            s << "t" << t << " " << cs::op_to_text(o) << "\n";
    for (auto& o : p.suffix)
        s << "s " << cs::op_to_text(o) << "\n";
    s << "sched";
    for (int c : p.schedule)
        s << " " << c;
    s << "\n";
    return s.str();
}

bool from_text(const std::string& text, Program& p)
{
    p = Program{};
    // header: reuse the case parser on the part before "--"
    auto       pos = text.find("\n--");
    cs::Case   c;
    if (pos == std::string::npos || !cs::from_text(text.substr(0, pos) + "\n--\n", c))
        return false;
    p.cfg      = c.cfg;
    p.cfg.sync = true;
    p.uni      = c.uni;
    std::istringstream in(text.substr(pos + 3));
    std::string        line;
    while (std::getline(in, line))
    {
        if (line.empty() || line[0] == '#')
            continue;
        std::istringstream ls(line);
        std::string        tag;
        ls >> tag;
        if (tag == "sched")
        {
            int v;
            while (ls >> v)
                p.schedule.push_back(v < 0 ? 0 : v % 8);
            continue;
        }
        std::string rest;
        std::getline(ls, rest);
        Op o;
        if (!cs::op_from_line(rest, o))
            continue;
        cs::normalize_op(o, p.uni);
        if (tag == "p")
            p.prefix.push_back(o);
        else if (tag == "s")
            p.suffix.push_back(o);
        else if (tag.size() >= 2 && tag[0] == 't')
        {
            size_t t = static_cast<size_t>(std::atoi(tag.c_str() + 1)) % 4;
            if (p.threads.size() <= t)
                p.threads.resize(t + 1);
            if (p.threads[t].size() < 6)
                p.threads[t].push_back(o);
        }
    }
    // drop empty threads
    std::vector<std::vector<Op>> th;
    for (auto& t : p.threads)
        if (!t.empty())
            th.push_back(t);
    p.threads.swap(th);
    return true;
}

// ---------------------------------------------------------------------------------------------
// executing one operation and rendering its observable result
// ---------------------------------------------------------------------------------------------
std::string run_op(const ex::Exec& X, bx::IBox& box, const Op& o, int uid, int uni)
{
    switch (o.code)
    {
        case cs::O_ADV: vt::set(vt::now() + o.dt_ns); return "adv";
        case cs::O_ADVTO: vt::set(vt::now() + 1'000'000 + o.off); return "adv";
        case cs::O_OBS:
        {
            // one observer per operation (three calls would not be one atomic step)
            std::ostringstream s;
            if (o.mode == 0)
                s << "size=" << box.size();
            else if (o.mode == 1)
                s << "empty=" << box.empty();
            else
                s << "cap=" << box.capacity();
            return s.str();
        }
        case cs::O_SCAN:
        {
            std::ostringstream s;
            s << "scan";
            for (int k = 0; k < uni; ++k)
            {
                uint64_t v  = 0;
                size_t   uc = 0;
                bool     h  = X.peek_find(box, k, v, &uc);
                s << " " << k << "=" << (h ? std::to_string(v) + "/" + std::to_string(uc) : std::string("-"));
            }
            s << " size=" << box.size();
            return s.str();
        }
        default: break;
    }
    if (!X.supported(o))
        return "unsupported";
    return X.exec(box, o, uid).str();
}

int uid_prefix(size_t i) { return static_cast<int>(i); }
int uid_thread(size_t t, size_t j) { return 100 + static_cast<int>(t) * 20 + static_cast<int>(j); }
int uid_suffix(size_t i) { return 300 + static_cast<int>(i); }

// ---------------------------------------------------------------------------------------------
// the baton scheduler
// ---------------------------------------------------------------------------------------------
struct OpRec
{
    long              inv{0}, resp{0};
    std::vector<long> acq; // logical times of the lock acquisitions made by this operation
    std::string       result;
};

struct Scheduler
{
    std::mutex              mu;
    std::condition_variable cv;
    int                     current{-1};
    int                     nthreads{0};
    std::vector<bool>       finished;
    std::vector<const void*> blocked_on;
    std::map<const void*, int> owner;
    long                    clock{0};
    // choices
    std::vector<int> choices; // consumed left to right; beyond the end: 0
    size_t           pos{0};
    std::vector<int> taken, limits; // what was actually chosen, and how many alternatives there were
    long             preemptions{0};
    long             hook_hits{0};
    long             value_points{0};
    bool             deadlock{false};
    std::vector<OpRec*> cur_op;

    std::vector<int> candidates(int self)
    {
        std::vector<int> c;
        auto runnable = [&](int i) {
            if (finished[static_cast<size_t>(i)])
                return false;
            const void* m = blocked_on[static_cast<size_t>(i)];
            if (!m)
                return true;
            auto it = owner.find(m);
            return it == owner.end() || it->second < 0;
        };
        if (self >= 0 && runnable(self))
            c.push_back(self);
        for (int i = 0; i < nthreads; ++i)
            if (i != self && runnable(i))
                c.push_back(i);
        return c;
    }
    int choose(int n)
    {
        int c = 0;
        if (n > 1)
        {
            c = pos < choices.size() ? choices[pos] % n : 0;
            ++pos;
            taken.push_back(c);
            limits.push_back(n);
        }
        return c;
    }
    // called by the baton holder with `lk` held
    void point(std::unique_lock<std::mutex>& lk, int self)
    {
        auto c = candidates(self);
        if (c.empty())
        {
            bool all = true;
            for (bool f : finished)
                all = all && f;
            if (!all)
                deadlock = true;
            current = -2;
            cv.notify_all();
            return;
        }
        const bool self_runnable = c[0] == self;
        int        next          = c[static_cast<size_t>(choose(static_cast<int>(c.size())))];
        if (next != self)
        {
            if (self_runnable)
                ++preemptions;
            current = next;
            cv.notify_all();
            if (!finished[static_cast<size_t>(self)])
                cv.wait(lk, [&] { return current == self || current == -2; });
        }
    }
};

Scheduler*       g_sched = nullptr;
thread_local int tl_id   = -1;
std::atomic<long> g_total_hook_hits{0};
} // namespace

extern "C" void cappuccino_verif_before_lock(const void* m)
{
    g_total_hook_hits.fetch_add(1, std::memory_order_relaxed);
    Scheduler* S = g_sched;
    if (!S || tl_id < 0)
        return;
    VERIF_TSAN_BLIND();
    std::unique_lock<std::mutex> lk(S->mu);
    ++S->hook_hits;
    S->point(lk, tl_id);
    for (;;)
    {
        auto it = S->owner.find(m);
        if (it == S->owner.end() || it->second < 0)
            break;
        if (it->second == tl_id)
        {
            S->deadlock = true; // re-acquiring a non-recursive mutex it already holds
            std::fprintf(stderr, "VERIF-SCHED: thread %d re-acquires a mutex it holds (self-deadlock)\n", tl_id);
            std::abort();
        }
        S->blocked_on[static_cast<size_t>(tl_id)] = m;
        S->point(lk, tl_id);
        if (S->current == -2)
            return;
    }
    S->blocked_on[static_cast<size_t>(tl_id)] = nullptr;
    S->owner[m]                               = tl_id;
    if (S->cur_op[static_cast<size_t>(tl_id)])
        S->cur_op[static_cast<size_t>(tl_id)]->acq.push_back(++S->clock);
}
extern "C" void verif_value_point()
{
    Scheduler* S = g_sched;
    if (!S || tl_id < 0)
        return;
    VERIF_TSAN_BLIND();
    std::unique_lock<std::mutex> lk(S->mu);
    if (S->current == -2)
        return;
    ++S->value_points;
    S->point(lk, tl_id);
}
extern "C" void cappuccino_verif_after_unlock(const void* m)
{
    Scheduler* S = g_sched;
    if (!S || tl_id < 0)
        return;
    VERIF_TSAN_BLIND();
    std::unique_lock<std::mutex> lk(S->mu);
    S->owner[m] = -1;
}

namespace
{
struct History
{
    std::vector<std::string>         prefix;
    std::vector<std::vector<OpRec>>  ops;
    std::vector<std::string>         suffix;
    std::vector<int>                 taken, limits;
    long                             preemptions{0};
    long                             hook_hits{0};
    bool                             deadlock{false};
};

void (*g_before_run)(const Program&, const std::vector<int>&) = nullptr;

// run prefix sequentially, the thread programs under the baton with the given choices, the suffix sequentially
History run_concurrent(const Program& p, const std::vector<int>& choices)
{
    if (g_before_run)
        g_before_run(p, choices);
    History h;
    vt::reset(p.cfg.seed);
    ex::Exec X(p.cfg);
    auto     box = bx::make_box(p.cfg);
    for (size_t i = 0; i < p.prefix.size(); ++i)
        h.prefix.push_back(run_op(X, *box, p.prefix[i], uid_prefix(i), p.uni));

    const size_t T = p.threads.size();
    h.ops.resize(T);
    for (size_t t = 0; t < T; ++t)
        h.ops[t].resize(p.threads[t].size());
    Scheduler S;
    S.nthreads = static_cast<int>(T);
    S.finished.assign(T, false);
    S.blocked_on.assign(T, nullptr);
    S.cur_op.assign(T, nullptr);
    S.choices = choices;
    g_sched   = &S;
    std::vector<std::thread> th;
    for (size_t t = 0; t < T; ++t)
        th.emplace_back([&, t]() {
            const int id = static_cast<int>(t);
            tl_id        = id;
            {
                VERIF_TSAN_BLIND();
                std::unique_lock<std::mutex> lk(S.mu);
                S.cv.wait(lk, [&] { return S.current == id || S.current == -2; });
            }
            auto aborted = [&]() {
                VERIF_TSAN_BLIND();
                return S.current == -2;
            };
            for (size_t j = 0; j < p.threads[t].size() && !aborted(); ++j)
            {
                OpRec& r = h.ops[t][j];
                {
                    VERIF_TSAN_BLIND();
                    std::unique_lock<std::mutex> lk(S.mu);
                    S.point(lk, id); // schedule point: invocation
                    if (S.current == -2)
                        break;
                    r.inv        = ++S.clock;
                    S.cur_op[t] = &r;
                }
                r.result = run_op(X, *box, p.threads[t][j], uid_thread(t, j), p.uni);
                {
                    VERIF_TSAN_BLIND();
                    std::unique_lock<std::mutex> lk(S.mu);
                    r.resp       = ++S.clock;
                    S.cur_op[t] = nullptr;
                }
            }
            {
                VERIF_TSAN_BLIND();
                std::unique_lock<std::mutex> lk(S.mu);
                S.finished[t] = true;
                if (S.current != -2)
                    S.point(lk, id); // hand the baton on (forced)
            }
            tl_id = -1;
        });
    {
        VERIF_TSAN_BLIND();
        std::unique_lock<std::mutex> lk(S.mu);
        if (T == 0)
            S.current = -2;
        else
        {
            auto c    = S.candidates(-1);
            S.current = c[static_cast<size_t>(S.choose(static_cast<int>(c.size())))];
        }
        S.cv.notify_all();
    }
    for (auto& t : th)
        t.join();
    g_sched       = nullptr;
    h.taken       = S.taken;
    h.limits      = S.limits;
    h.preemptions = S.preemptions;
    h.hook_hits   = S.hook_hits;
    h.deadlock    = S.deadlock;
    for (size_t i = 0; i < p.suffix.size(); ++i)
        h.suffix.push_back(run_op(X, *box, p.suffix[i], uid_suffix(i), p.uni));
    return h;
}

using Ref = std::pair<size_t, size_t>; // (thread, index)

// sequential execution of prefix, the given order (possibly partial), and - if complete - the suffix.
// Returns the index of the first operation in `order` whose result differs from the history (or -1), and whether the suffix matches.
struct SeqResult
{
    int  first_mismatch{-1};
    bool suffix_ok{true};
    std::string detail;
};
SeqResult run_sequential(const Program& p, const History& h, const std::vector<Ref>& order, bool complete)
{
    SeqResult r;
    vt::reset(p.cfg.seed);
    ex::Exec X(p.cfg);
    auto     box = bx::make_box(p.cfg);
    for (size_t i = 0; i < p.prefix.size(); ++i)
        run_op(X, *box, p.prefix[i], uid_prefix(i), p.uni);
    for (size_t i = 0; i < order.size(); ++i)
    {
        auto [t, j]      = order[i];
        std::string got  = run_op(X, *box, p.threads[t][j], uid_thread(t, j), p.uni);
        if (got != h.ops[t][j].result)
        {
            r.first_mismatch = static_cast<int>(i);
            r.detail         = "t" + std::to_string(t) + "#" + std::to_string(j) + " sequentially gives [" + got + "], concurrently gave [" + h.ops[t][j].result + "]";
            return r;
        }
    }
    if (complete)
        for (size_t i = 0; i < p.suffix.size(); ++i)
        {
            std::string got = run_op(X, *box, p.suffix[i], uid_suffix(i), p.uni);
            if (got != h.suffix[i])
            {
                r.suffix_ok = false;
                r.detail    = "suffix#" + std::to_string(i) + " sequentially gives [" + got + "], after the concurrent phase gave [" + h.suffix[i] + "]";
                return r;
            }
        }
    return r;
}

struct LinResult
{
    bool        ok{false};
    bool        inconclusive{false};
    long        nodes{0};
    bool        witness_was_lock_order{false};
    std::string detail;
};

LinResult linearizable(const Program& p, const History& h)
{
    LinResult        L;
    std::vector<Ref> all;
    for (size_t t = 0; t < h.ops.size(); ++t)
        for (size_t j = 0; j < h.ops[t].size(); ++j)
            if (h.ops[t][j].inv > 0)
                all.push_back({t, j});
    auto rec = [&](const Ref& r) -> const OpRec& { return h.ops[r.first][r.second]; };
    // 1. the order in which the operations (last) acquired the lock
    for (int variant = 0; variant < 2 && !L.ok; ++variant)
    {
        std::vector<Ref> order = all;
        auto key = [&](const Ref& r) {
            const OpRec& o = rec(r);
            if (o.acq.empty())
                return o.inv;
            return variant == 0 ? o.acq.back() : o.acq.front();
        };
        std::stable_sort(order.begin(), order.end(), [&](const Ref& a, const Ref& b) { return key(a) < key(b); });
        ++L.nodes;
        auto r = run_sequential(p, h, order, true);
        if (r.first_mismatch < 0 && r.suffix_ok)
        {
            L.ok                     = true;
            L.witness_was_lock_order = true;
            return L;
        }
        L.detail = r.detail;
    }
    // 2. depth-first search over every order consistent with program order and real-time order
    std::vector<Ref>    order;
    std::vector<size_t> next(h.ops.size(), 0);
    const long          kMaxNodes = 20000;
    std::function<bool()> dfs = [&]() -> bool {
        if (order.size() == all.size())
        {
            ++L.nodes;
            auto r = run_sequential(p, h, order, true);
            return r.first_mismatch < 0 && r.suffix_ok;
        }
        for (size_t t = 0; t < h.ops.size(); ++t)
        {
            if (next[t] >= h.ops[t].size() || h.ops[t][next[t]].inv == 0)
                continue;
            const OpRec& cand = h.ops[t][next[t]];
            // real-time order: nothing still unplaced may have responded before cand was invoked
            bool ok = true;
            for (size_t u = 0; u < h.ops.size() && ok; ++u)
                if (u != t && next[u] < h.ops[u].size() && h.ops[u][next[u]].inv > 0 && h.ops[u][next[u]].resp < cand.inv)
                    ok = false;
            if (!ok)
                continue;
            order.push_back({t, next[t]});
            ++next[t];
            if (++L.nodes > kMaxNodes)
            {
                L.inconclusive = true;
                return false;
            }
            auto r = run_sequential(p, h, order, false);
            if (r.first_mismatch < 0 && dfs())
                return true;
            --next[t];
            order.pop_back();
            if (L.inconclusive)
                return false;
        }
        return false;
    };
    L.ok = dfs();
    return L;
}

// ---------------------------------------------------------------------------------------------
// one program: the generated schedule plus an enumeration of up to `exhaust` schedules
// ---------------------------------------------------------------------------------------------
struct ProgResult
{
    int              verdict{0}; // 0 pass, 1 violation
    std::string      pred, msg;
    std::vector<int> failing_schedule;
    long             schedules{0};
    bool             exhausted{false};
    long             nontrivial_runs{0};
    long             range_interleaved{0};
    long             preemptions{0};
    long             nodes{0};
    long             inconclusive{0};
    long             not_lock_order{0};
    long             hook_hits{0};
};

bool interleaved(const History& h, bool* range_involved, const Program& p)
{
    // some other thread's operation acquired the lock between invocation and response of an operation
    bool any = false;
    for (size_t t = 0; t < h.ops.size(); ++t)
        for (size_t j = 0; j < h.ops[t].size(); ++j)
        {
            const OpRec& a = h.ops[t][j];
            for (size_t u = 0; u < h.ops.size(); ++u)
                if (u != t)
                    for (size_t k = 0; k < h.ops[u].size(); ++k)
                        for (long q : h.ops[u][k].acq)
                            if (q > a.inv && q < a.resp)
                            {
                                any          = true;
                                const int c  = p.threads[t][j].code;
                                const int c2 = p.threads[u][k].code;
                                auto is_r    = [](int x) { return x == cs::O_INSR || x == cs::O_ERAR || x == cs::O_FINDR || x == cs::O_FINDRF || x == cs::O_CLEAN || x == cs::O_AGE || x == cs::O_CLEAR; };
                                if (range_involved && (is_r(c) || is_r(c2)))
                                    *range_involved = true;
                            }
        }
    return any;
}

bool g_race_only = false; // scheduled-TSan variant: ThreadSanitizer is the oracle, no linearizability search

void check_history(const Program& p, const History& h, ProgResult& R, const std::vector<int>& sched_used)
{
    ++R.schedules;
    R.preemptions += h.preemptions;
    R.hook_hits += h.hook_hits;
    bool rng = false;
    if (interleaved(h, &rng, p))
    {
        ++R.nontrivial_runs;
        if (rng)
            ++R.range_interleaved;
    }
    if (h.deadlock)
    {
        R.verdict          = 1;
        R.pred             = "deadlock";
        R.msg              = "no thread can run and not all have finished";
        R.failing_schedule = sched_used;
        return;
    }
    if (g_race_only)
        return;
    LinResult L = linearizable(p, h);
    R.nodes += L.nodes;
    if (L.inconclusive)
    {
        ++R.inconclusive;
        return;
    }
    if (L.ok && !L.witness_was_lock_order)
        ++R.not_lock_order;
    if (!L.ok)
    {
        R.verdict          = 1;
        R.pred             = "not_linearizable";
        std::ostringstream m;
        m << "no sequential order of the concurrent operations reproduces the observed results; history:";
        for (size_t t = 0; t < h.ops.size(); ++t)
            for (size_t j = 0; j < h.ops[t].size(); ++j)
                m << " t" << t << "#" << j << "{" << cs::op_to_text(p.threads[t][j]) << " inv=" << h.ops[t][j].inv << " resp=" << h.ops[t][j].resp << " -> " << h.ops[t][j].result
                  << "}";
        m << " (closest attempt: " << L.detail << ")";
        R.msg              = m.str();
        R.failing_schedule = sched_used;
    }
}

ProgResult check_program(const Program& p, long exhaust)
{
    ProgResult R;
    // the generated schedule
    {
        History h = run_concurrent(p, p.schedule);
        check_history(p, h, R, h.taken);
        if (R.verdict)
            return R;
    }
    for (auto& sc : p.more_schedules)
    {
        History h = run_concurrent(p, sc);
        check_history(p, h, R, h.taken);
        if (R.verdict)
            return R;
    }
    if (exhaust <= 0)
        return R;
    if (p.cfg.cap >= 64 && exhaust > 150)
        exhaust = 150; // big programs: hundreds of value points per operation, the tree is astronomically large anyway - sample its deep end only
    // stateless depth-first enumeration of the schedule tree
    std::vector<int> choices;
    long             n = 0;
    for (;;)
    {
        History h = run_concurrent(p, choices);
        check_history(p, h, R, h.taken);
        if (R.verdict)
            return R;
        ++n;
        // next: increment the last choice that still has an alternative
        std::vector<int> taken = h.taken, limits = h.limits;
        while (!taken.empty() && taken.back() + 1 >= limits.back())
        {
            taken.pop_back();
            limits.pop_back();
        }
        if (taken.empty())
        {
            R.exhausted = true;
            break;
        }
        ++taken.back();
        choices = taken;
        if (n >= exhaust)
            break;
    }
    return R;
}

// ---------------------------------------------------------------------------------------------
// rapidcheck generator
// ---------------------------------------------------------------------------------------------
rc::Gen<int> uni_int(int lo, int hi) { return rc::gen::resize(100, rc::gen::inRange(lo, hi + 1)); }
template<typename T>
rc::Gen<T> weighted(const std::vector<std::pair<std::size_t, T>>& v)
{
    std::vector<T> t;
    for (auto& [w, x] : v)
        for (std::size_t i = 0; i < w; ++i)
            t.push_back(x);
    return rc::gen::elementOf(t);
}

rc::Gen<Op> gen_op(bool concurrent)
{
    std::vector<std::pair<std::size_t, int>> codes =
        concurrent ? std::vector<std::pair<std::size_t, int>>{{24, cs::O_INS}, {10, cs::O_INSR}, {8, cs::O_ERA}, {6, cs::O_ERAR}, {10, cs::O_FIND}, {4, cs::O_FINDUC}, {8, cs::O_FINDR},
                                                               {5, cs::O_FINDRF}, {6, cs::O_CLEAN}, {4, cs::O_AGE}, {4, cs::O_UTTL}, {4, cs::O_CLEAR}, {6, cs::O_OBS}}
                   : std::vector<std::pair<std::size_t, int>>{{40, cs::O_INS}, {6, cs::O_INSR}, {4, cs::O_ERA}, {6, cs::O_FIND}, {4, cs::O_UTTL}, {12, cs::O_ADV}};
    auto ttl   = weighted<int64_t>({{1, 0}, {3, 1}, {4, 2}, {6, 3}, {6, 5}, {3, 50}, {3, 1000}});
    auto elem  = rc::gen::build<cs::Elem>(rc::gen::set(&cs::Elem::k, uni_int(0, 7)), rc::gen::set(&cs::Elem::ttl_ms, ttl));
    auto small = rc::gen::resize(3, rc::gen::container<std::vector<cs::Elem>>(elem));
    // a few range calls are long (batching / chunking mistakes only show beyond some element count)
    auto bulk  = rc::gen::map(rc::gen::resize(100, rc::gen::inRange(129, 300)), [](int n) {
        std::vector<cs::Elem> v;
        for (int i = 0; i < n; ++i)
            v.push_back(cs::Elem{i % 5, 3});
        return v;
    });
    auto medium = rc::gen::map(rc::gen::resize(100, rc::gen::inRange(17, 41)), [](int n) {
        std::vector<cs::Elem> v;
        for (int i = 0; i < n; ++i)
            v.push_back(cs::Elem{(i * 3) % 5, 3});
        return v;
    });
    auto elems = concurrent ? rc::gen::oneOf(small, small, small, small, small, small, medium, bulk) : small;
    return rc::gen::build<Op>(rc::gen::set(&Op::code, weighted<int>(codes)), rc::gen::set(&Op::k, uni_int(0, 7)), rc::gen::set(&Op::allow, weighted<int>({{6, 3}, {2, 1}, {2, 2}})),
                              rc::gen::set(&Op::ttl_ms, ttl), rc::gen::set(&Op::peek, rc::gen::map(uni_int(0, 2), [](int v) { return v == 0; })),
                              rc::gen::set(&Op::flavour, weighted<int>({{5, 0}, {2, 1}, {1, 2}, {1, 3}})), rc::gen::set(&Op::elems, elems),
                              rc::gen::set(&Op::mode, uni_int(0, 2)),
                              rc::gen::set(&Op::dt_ns, weighted<int64_t>({{2, 1000000}, {3, 2000000}, {3, 3000000}, {2, 2999999}, {2, 5000000}, {1, 5000001}})));
}

struct GProg
{
    int                          kind{0}, types{0}, cap{2}, extra{1}, ttl{3}, tick{2}, ratio_idx{0}, seed{1};
    std::vector<Op>              prefix;
    std::vector<Op>              t0, t1, t2;
    int                          suffix_variant{0};
    int                          big{0}; // 0: capacity 1-3; 1..3: capacity 70 / 130 / 200 filled by one range insert that then expires (batching / chunking code)
    std::vector<std::vector<int>> schedules;
};

Program build_program(const GProg& g)
{
    static const int rn[] = {1, 0, 1, 3, 1};
    static const int rd[] = {2, 1, 4, 4, 1};
    Program          p;
    p.cfg.kind      = g.kind;
    p.cfg.sync      = true;
    p.cfg.types     = g.types;
    p.cfg.cap       = static_cast<size_t>(g.cap);
    p.cfg.mlf       = 1.0f;
    p.cfg.ttl_ms    = g.ttl;
    p.cfg.tick_ms   = g.tick;
    p.cfg.ratio_num = rn[g.ratio_idx % 5];
    p.cfg.ratio_den = rd[g.ratio_idx % 5];
    p.cfg.seed      = static_cast<uint64_t>(g.seed);
    p.uni           = g.cap + g.extra;
    p.prefix        = g.prefix;
    for (auto* t : {&g.t0, &g.t1, &g.t2})
        if (!t->empty())
            p.threads.push_back(*t);
    if (g.big > 0)
    {
        static const int bc[] = {0, 70, 130, 200};
        p.cfg.cap    = static_cast<size_t>(bc[g.big % 4]);
        p.uni        = bc[g.big % 4] + 2;
        p.cfg.ttl_ms = 3;
        Op fill;
        fill.code    = cs::O_INSR;
        fill.allow   = bx::A_BOTH;
        fill.flavour = bx::F_VEC;
        for (int k = 0; k < bc[g.big % 4]; ++k)
            fill.elems.push_back(cs::Elem{k, 3});
        Op adv;
        adv.code  = cs::O_ADV;
        adv.dt_ns = (g.suffix_variant % 2) ? 5'000'000 : 1'000'000; // everything expired / everything still live
        p.prefix.clear();
        p.prefix.push_back(fill);
        p.prefix.push_back(adv);
        // thread 0 performs one bulk operation over the whole population, the other threads observe and mutate around it
        Op bulk;
        const int which = g.seed % 5;
        bulk.code       = which == 0 ? cs::O_CLEAN : which == 1 ? cs::O_ERAR : which == 2 ? cs::O_FINDR : which == 3 ? cs::O_INSR : cs::O_AGE;
        bulk.allow      = bx::A_BOTH;
        bulk.flavour    = (g.seed / 5) % 4;
        bulk.peek       = (g.seed / 20) % 2;
        for (int k = 0; k < bc[g.big % 4]; ++k)
            bulk.elems.push_back(cs::Elem{k, 3});
        if (p.threads.empty())
            p.threads.resize(1);
        p.threads[0].insert(p.threads[0].begin(), bulk);
        if (p.threads[0].size() > 3)
            p.threads[0].resize(3);
        if (p.threads.size() < 2)
            p.threads.resize(2);
        for (size_t t = 1; t < p.threads.size(); ++t)
        {
            Op ob;
            ob.code = cs::O_OBS;
            ob.mode = static_cast<int>((static_cast<size_t>(g.seed) + t) % 2); // size() or empty()
            p.threads[t].insert(p.threads[t].begin(), ob);
            if (p.threads[t].size() > 3)
                p.threads[t].resize(3);
        }
    }
    if (p.cfg.kind == bx::K_FIFO)
        for (auto& t : p.threads)
            for (auto& o : t)
                o.flavour = (o.flavour + g.seed) % 4; // the iterator-pair overloads as often as the range forms
    for (auto& o : p.prefix)
        cs::normalize_op(o, p.uni);
    for (auto& t : p.threads)
        for (auto& o : t)
            cs::normalize_op(o, p.uni);
    // suffix: make recency, counts, TTLs and free slots left behind by the concurrent phase observable
    auto mk = [&](int code, int k = 0, int64_t dt = 0) {
        Op o;
        o.code   = code;
        o.k      = ((k % p.uni) + p.uni) % p.uni;
        o.allow  = bx::A_BOTH;
        o.ttl_ms = 3;
        o.dt_ns  = dt;
        o.mode   = 2;
        return o;
    };
    for (int m = 0; m < 3; ++m)
    {
        Op o   = mk(cs::O_OBS);
        o.mode = m;
        p.suffix.push_back(o);
    }
    p.suffix.push_back(mk(cs::O_SCAN));
    if (g.suffix_variant % 2 == 0)
    {
        p.suffix.push_back(mk(cs::O_CLEAN));
        p.suffix.push_back(mk(cs::O_AGE));
    }
    for (int i = 0; i < 2 + g.suffix_variant % 2; ++i)
    {
        p.suffix.push_back(mk(cs::O_INS, p.uni - 1 - i));
        p.suffix.push_back(mk(cs::O_SCAN));
    }
    p.suffix.push_back(mk(cs::O_ADV, 0, 2'000'000));
    p.suffix.push_back(mk(cs::O_SCAN));
    p.suffix.push_back(mk(cs::O_ADV, 0, 999'999));
    p.suffix.push_back(mk(cs::O_SCAN));
    p.suffix.push_back(mk(cs::O_ADV, 0, 1));
    p.suffix.push_back(mk(cs::O_AGE));
    p.suffix.push_back(mk(cs::O_CLEAN));
    p.suffix.push_back(mk(cs::O_SCAN));
    p.suffix.push_back(mk(cs::O_OBS));
    if (!g.schedules.empty())
        p.schedule = g.schedules[0];
    for (size_t i = 1; i < g.schedules.size(); ++i)
        p.more_schedules.push_back(g.schedules[i]);
    return p;
}

rc::Gen<GProg> gen_prog(const std::vector<int>& kinds, int max_ops)
{
    auto cop  = gen_op(true);
    auto thr  = rc::gen::resize(max_ops, rc::gen::container<std::vector<Op>>(cop));
    auto thr1 = rc::gen::suchThat(thr, [](const std::vector<Op>& v) { return !v.empty(); });
    return rc::gen::build<GProg>(
        rc::gen::set(&GProg::kind, rc::gen::elementOf(kinds)), rc::gen::set(&GProg::types, weighted<int>({{5, 0}, {1, 1}, {3, 2}})),
        rc::gen::set(&GProg::cap, weighted<int>({{3, 1}, {5, 2}, {3, 3}})), rc::gen::set(&GProg::extra, weighted<int>({{3, 1}, {3, 2}})),
        rc::gen::set(&GProg::ttl, weighted<int>({{1, 0}, {2, 1}, {4, 2}, {6, 3}, {4, 5}, {2, 1000}})), rc::gen::set(&GProg::tick, weighted<int>({{3, 1}, {3, 2}, {2, 5}})),
        rc::gen::set(&GProg::ratio_idx, uni_int(0, 4)), rc::gen::set(&GProg::seed, uni_int(1, 65535)),
        rc::gen::set(&GProg::prefix, rc::gen::resize(6, rc::gen::container<std::vector<Op>>(gen_op(false)))), rc::gen::set(&GProg::t0, thr1), rc::gen::set(&GProg::t1, thr1),
        rc::gen::set(&GProg::t2, rc::gen::oneOf(rc::gen::just(std::vector<Op>{}), rc::gen::just(std::vector<Op>{}), thr)),
        rc::gen::set(&GProg::suffix_variant, uni_int(0, 3)),
        rc::gen::set(&GProg::big, weighted<int>({{30, 0}, {2, 1}, {2, 2}, {2, 3}})),
        rc::gen::set(&GProg::schedules, rc::gen::resize(6, rc::gen::container<std::vector<std::vector<int>>>(
                                            rc::gen::resize(30, rc::gen::container<std::vector<int>>(weighted<int>({{6, 0}, {3, 1}, {1, 2}})))))));
}

// ---------------------------------------------------------------------------------------------
// statistics (same file format as the sequential engine so the driver is shared)
// ---------------------------------------------------------------------------------------------
double mono_now_s()
{
    // the real monotonic clock (std::chrono::steady_clock is the harness-owned virtual clock)
    timespec ts;
    clock_gettime(CLOCK_MONOTONIC, &ts);
    return static_cast<double>(ts.tv_sec) + static_cast<double>(ts.tv_nsec) * 1e-9;
}
unsigned long long fnv(const std::string& s)
{
    unsigned long long h = 1469598103934665603ull;
    for (unsigned char ch : s)
    {
        h ^= ch;
        h *= 1099511628211ull;
    }
    return h;
}
std::string g_outdir = ".";
int         g_worker = 0;
char        g_current[1 << 16];
std::size_t g_current_len = 0;
void        dump_current()
{
    char path[512];
    std::snprintf(path, sizeof path, "%s/crash-w%d.case", g_outdir.c_str(), g_worker);
    int fd = ::open(path, O_WRONLY | O_CREAT | O_TRUNC, 0644);
    if (fd >= 0)
    {
        ssize_t r = ::write(fd, g_current, g_current_len);
        (void)r;
        ::close(fd);
    }
}
void on_abort(int)
{
    dump_current();
    std::signal(SIGABRT, SIG_DFL);
}
void remember_run(const Program& p, const std::vector<int>& choices)
{
    // what a death callback will dump: the program with exactly the schedule that is about to run
    Program q  = p;
    q.schedule = choices;
    std::string text = to_text(q);
    g_current_len    = std::min(text.size(), sizeof g_current);
    std::memcpy(g_current, text.data(), g_current_len);
}
} // namespace

extern "C" void __sanitizer_set_death_callback(void (*)(void));

int main(int argc, char** argv)
{
    if (argc < 2)
        return 2;
    std::string cmd = argv[1], profile = "all", file, property = "C06";
#ifdef VERIF_TSAN_SCHED
    g_race_only = true;
#endif
    long        exhaust = std::getenv("VERIF_SCHED_EXHAUST") ? std::atol(std::getenv("VERIF_SCHED_EXHAUST")) : 40;
    int         max_ops = std::getenv("VERIF_SCHED_MAXOPS") ? std::atoi(std::getenv("VERIF_SCHED_MAXOPS")) : 2;
    std::string kinds_arg;
    bool        sequential_only = false;
    for (int i = 2; i < argc; ++i)
    {
        std::string a   = argv[i];
        auto        nxt = [&]() -> std::string { return i + 1 < argc ? argv[++i] : ""; };
        if (a == "--property")
            property = nxt();
        else if (a == "--mode")
            nxt();
        else if (a == "--profile")
            profile = nxt();
        else if (a == "--kinds")
            kinds_arg = nxt();
        else if (a == "--out")
            g_outdir = nxt();
        else if (a == "--worker")
            g_worker = std::atoi(nxt().c_str());
        else if (a == "--exhaust")
            exhaust = std::atol(nxt().c_str());
        else if (a == "--strict-f8")
            ;
        else if (a == "--sequential")
            sequential_only = true;
        else if (a == "--race-only")
            g_race_only = true;
        else
            file = a;
    }
    if (cmd == "replay")
    {
        std::ifstream     in(file);
        std::stringstream ss;
        ss << in.rdbuf();
        Program p;
        if (!from_text(ss.str(), p))
        {
            std::printf("verdict 3\n");
            return 3;
        }
        long ex = exhaust;
        {
            // a replay file may ask for a full enumeration of its schedules ("# exhaust N")
            auto pos = ss.str().find("# exhaust ");
            if (pos != std::string::npos)
                ex = std::atol(ss.str().c_str() + pos + 10);
            else if (!p.schedule.empty())
                ex = 0;
        }
        if (sequential_only)
        {
            // no preemption at all: every thread runs to completion in turn
            p.schedule.clear();
            p.more_schedules.clear();
            ex = 0;
        }
        ProgResult R = check_program(p, ex);
        std::printf("verdict %d\nnontrivial %d\n", R.verdict, R.nontrivial_runs > 0 ? 1 : 0);
        if (R.verdict)
        {
            std::printf("pred %s\ntags C06\nstep 0\nmsg %s\n", R.pred.c_str(), R.msg.c_str());
            std::printf("failing_schedule");
            for (int c : R.failing_schedule)
                std::printf(" %d", c);
            std::printf("\n");
        }
        std::printf("L schedules %ld\nL exhausted %d\nL interleaved_runs %ld\nL search_nodes %ld\nL hook_hits %ld\n", R.schedules, R.exhausted ? 1 : 0, R.nontrivial_runs, R.nodes,
                    R.hook_hits);
        return R.verdict;
    }
    if (cmd != "gen")
        return 2;

    std::vector<int> kinds = {0, 1, 2, 3, 4, 5, 6, 7, 8, 9};
    if (!kinds_arg.empty())
    {
        kinds.clear();
        std::istringstream ks(kinds_arg);
        std::string        t;
        while (std::getline(ks, t, ','))
            if (bx::kind_from(t) >= 0)
                kinds.push_back(bx::kind_from(t));
    }
    __sanitizer_set_death_callback(dump_current);
    std::signal(SIGABRT, on_abort);
    g_before_run = remember_run;

    long                         evaluations = 0, generated = 0, nontrivial = 0, schedules = 0, exhausted = 0, interleaved_runs = 0, range_interleaved = 0, nodes = 0, inconclusive = 0,
         not_lock_order = 0, hook_hits = 0, preemptions = 0;
    std::set<unsigned long long> hashes;
    std::map<std::string, std::pair<long, long>> per_kind;
    std::vector<std::string>     samples;
    bool                         failed = false;
    std::string                  fail_pred, fail_msg, fail_text;
    const auto                   gen      = gen_prog(kinds, max_ops);
    const std::string            failpath = g_outdir + "/fail-w" + std::to_string(g_worker) + ".case";

    long   shrink_evals = 0;
    double fail_t0      = 0;
    bool ok = rc::check(property + " sched " + profile, [&]() {
        const GProg g = *gen;
        if (failed && (++shrink_evals > 1500 || mono_now_s() - fail_t0 > 40.0))
            return; // shrinking budget used up
        Program     p = build_program(g);
        std::string text = to_text(p);
        g_current_len    = std::min(text.size(), sizeof g_current);
        std::memcpy(g_current, text.data(), g_current_len);
        ProgResult R = check_program(p, exhaust);
        ++evaluations;
        if (!failed)
        {
            ++generated;
            schedules += R.schedules;
            exhausted += R.exhausted ? 1 : 0;
            interleaved_runs += R.nontrivial_runs;
            range_interleaved += R.range_interleaved;
            nodes += R.nodes;
            inconclusive += R.inconclusive;
            not_lock_order += R.not_lock_order;
            hook_hits += R.hook_hits;
            preemptions += R.preemptions;
            auto& pk = per_kind[bx::kind_name(p.cfg.kind)];
            pk.first += 1;
            if (R.nontrivial_runs > 0)
            {
                ++nontrivial;
                pk.second += 1;
                hashes.insert(fnv(text));
                if (samples.size() < 4 && nontrivial % 53 == 1)
                    samples.push_back(text);
            }
        }
        if (R.verdict == 1 && (!failed || R.pred == fail_pred))
        {
            if (!failed)
                fail_t0 = mono_now_s();
            failed    = true;
            fail_pred = R.pred;
            fail_msg  = R.msg;
            Program q = p;
            q.schedule = R.failing_schedule;
            fail_text = to_text(q);
            std::ofstream f(failpath);
            f << "# property C06 mode sched\n# " << R.pred << ": " << R.msg << "\n" << fail_text;
            RC_FAIL(R.pred);
        }
    });
    {
        std::ofstream o(g_outdir + "/stats-w" + std::to_string(g_worker) + ".txt");
        o << "evaluations " << evaluations << "\ngenerated " << generated << "\nnontrivial " << nontrivial << "\n";
        for (auto h : hashes)
            o << "hash " << h << "\n";
        o << "label schedules_run " << schedules << "\nlabel programs_fully_enumerated " << exhausted << "\nlabel runs_with_interleaved_operations " << interleaved_runs
          << "\nlabel runs_with_interleaved_range_or_bulk_operation " << range_interleaved << "\nlabel linearization_search_nodes " << nodes << "\nlabel searches_inconclusive "
          << inconclusive << "\nlabel witness_not_lock_order " << not_lock_order << "\nlabel hook_hits " << hook_hits << "\nlabel preemptions " << preemptions << "\n";
        o << "cases_with runs_with_interleaved_operations " << nontrivial << "\n";
        for (auto& [k, v] : per_kind)
            o << "kind " << k << " " << v.first << " " << v.second << "\n";
        for (auto& s : samples)
            o << "sample<<<\n" << s << ">>>\n";
        if (failed)
            o << "failed 1\nfail_pred " << fail_pred << "\nfail_tags C06\nfail_step 0\nfail_msg " << fail_msg << "\nfail_case<<<\n" << fail_text << ">>>\n";
    }
    if (generated > 0 && hook_hits == 0)
    {
        std::fprintf(stderr, "VERIF-SCHED: no schedule points were hit - the hooks are not compiled in\n");
        return 4;
    }
    return ok ? 0 : 1;
}
