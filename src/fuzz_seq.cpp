// E2: libFuzzer target.  bytes -> Case (total decoder) -> the same run_case() oracle as E1.
// Configuration comes from the environment (read once in LLVMFuzzerInitialize):
//   VERIF_FUZZ_PROPERTY  Cxx          VERIF_FUZZ_MODE   model|twin-range|...
//   VERIF_FUZZ_KIND      0..9 | -1    VERIF_FUZZ_STATS  file for the label / non-trivial statistics
// An oracle failure dumps the statistics and traps; libFuzzer saves the input as crash-<sha1>, which the
// driver decodes with `seq decode` and confirms with `seq replay` before it counts.
#include "engine.hpp"

#include <cstdio>
#include <cstdlib>
#include <fstream>
#include <set>

namespace
{
en::Options                  g_opt;
int                          g_kind = -1;
std::string                  g_stats_path;
long                         g_execs = 0, g_nontrivial = 0;
std::set<unsigned long long> g_hashes;
std::map<std::string, long>  g_labels, g_cases_with, g_foreign;

unsigned long long fnv(const std::string& s)
{
    unsigned long long h = 1469598103934665603ull;
    for (unsigned char ch : s)
    {
        h ^= ch;
        h *= 1099511628211ull;
    }
    return h;
}
void write_stats()
{
    if (g_stats_path.empty())
        return;
    std::ofstream o(g_stats_path);
    o << "evaluations " << g_execs << "\ngenerated " << g_execs << "\nnontrivial " << g_nontrivial << "\n";
    for (auto h : g_hashes)
        o << "hash " << h << "\n";
    for (auto& [k, v] : g_labels)
        o << "label " << k << " " << v << "\n";
    for (auto& [k, v] : g_cases_with)
        o << "cases_with " << k << " " << v << "\n";
    for (auto& [k, v] : g_foreign)
        o << "foreign " << k << " " << v << "\n";
}
} // namespace

extern "C" int LLVMFuzzerInitialize(int*, char***)
{
    if (const char* p = std::getenv("VERIF_FUZZ_PROPERTY"))
        g_opt.property = p;
    if (const char* p = std::getenv("VERIF_FUZZ_MODE"))
        g_opt.mode = p;
    if (const char* p = std::getenv("VERIF_FUZZ_KIND"))
        g_kind = std::atoi(p);
    if (const char* p = std::getenv("VERIF_FUZZ_STATS"))
        g_stats_path = p;
    std::atexit(write_stats);
    return 0;
}

extern "C" int LLVMFuzzerTestOneInput(const uint8_t* data, size_t size)
{
    cs::Case   c = cs::from_bytes(data, size, g_kind);
    en::Result r = en::run_case(c, g_opt); // resets clock, seed and instance accounting itself
    ++g_execs;
    for (auto& [k, v] : r.labels)
    {
        g_labels[k] += v;
        g_cases_with[k] += 1;
    }
    if (r.verdict == en::V_FOREIGN)
        g_foreign[r.tags] += 1;
    if (r.nontrivial)
    {
        ++g_nontrivial;
        if (g_hashes.size() < 2000000)
            g_hashes.insert(fnv(cs::to_text(c)));
    }
    if ((g_execs & 0x3fff) == 0)
        write_stats();
    if (r.verdict == en::V_VIOLATION)
    {
        std::fprintf(stderr, "VERIF-ORACLE: %s [%s] step %d: %s\n%s", r.pred.c_str(), r.tags.c_str(), r.step, r.msg.c_str(), cs::to_text(c).c_str());
        write_stats();
        __builtin_trap();
    }
    return 0;
}
