// Virtual time / seed control shared by every engine.
#pragma once
#include <atomic>
#include <cstdint>

namespace vt
{
extern std::atomic<int64_t>  g_now_ns;   // what steady_clock::now() returns
extern std::atomic<uint64_t> g_rd_seed;  // what std::random_device is derived from
extern std::atomic<uint64_t> g_rd_calls; // number of random_device draws since reset

constexpr int64_t kEpochNs = 1'000'000'000; // start away from 0 so "-1 ns" never underflows

inline void reset(uint64_t seed)
{
    g_now_ns.store(kEpochNs, std::memory_order_relaxed);
    g_rd_seed.store(seed, std::memory_order_relaxed);
    g_rd_calls.store(0, std::memory_order_relaxed);
}
inline int64_t now() { return g_now_ns.load(std::memory_order_relaxed); }
inline void    set(int64_t t) { g_now_ns.store(t, std::memory_order_relaxed); }
} // namespace vt
