// Link-time replacement of the two sources of nondeterminism the library uses:
//   std::chrono::steady_clock::now()   -> harness-owned virtual clock (ns)
//   std::random_device                 -> harness-owned seed stream (rr_cache seeds mt19937 from it)
// No source hook in the library is needed; the executable's definitions win over libstdc++.so's.
#include "vt.hpp"

#include <chrono>
#include <random>
#include <string>

namespace vt
{
std::atomic<int64_t>  g_now_ns{1'000'000'000};
std::atomic<uint64_t> g_rd_seed{1};
std::atomic<uint64_t> g_rd_calls{0};
} // namespace vt

namespace std
{
namespace chrono
{
inline namespace _V2
{
steady_clock::time_point steady_clock::now() noexcept
{
    return time_point(duration(vt::g_now_ns.load(std::memory_order_relaxed)));
}
} // namespace _V2
} // namespace chrono

void random_device::_M_init(const std::string&) {}
void random_device::_M_init(const char*, size_t) {}
void random_device::_M_fini() {}
random_device::result_type random_device::_M_getval()
{
    // splitmix64 over (seed, call index): every rr_cache constructed gets a seed that is a pure function of the case.
    uint64_t z = vt::g_rd_seed.load(std::memory_order_relaxed) +
                 0x9E3779B97F4A7C15ull * (1 + vt::g_rd_calls.fetch_add(1, std::memory_order_relaxed));
    z = (z ^ (z >> 30)) * 0xBF58476D1CE4E5B9ull;
    z = (z ^ (z >> 27)) * 0x94D049BB133111EBull;
    z = z ^ (z >> 31);
    return static_cast<result_type>(z);
}
double random_device::_M_getentropy() const noexcept { return 0.0; }
} // namespace std
