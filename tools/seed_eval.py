#!/usr/bin/env python3
"""Confirm a sub-agent's seeded change and run checks against it.
  tools/seed_eval.py /tmp/seed/out/C16 1 --props C16,C17,C10 [--keep]
Steps (all in a scratch worktree of /repo HEAD under /tmp, removed afterwards):
  1. patch applies   2. unit suite passes with it   3. demo fails with it / passes without
  4. the named quick checks are run against it       5. result is stored as /verif/seeded/<prop>-<n>/{patch.diff,demo.cpp,meta.json}
"""
import argparse, json, os, re, shutil, subprocess, sys, time
ROOT = os.path.dirname(os.path.dirname(os.path.abspath(__file__)))
sys.path.insert(0, os.path.join(ROOT, "tools"))
import sweep  # noqa


def sh(cmd, timeout=None, **kw):
    try:
        return subprocess.run(cmd, capture_output=True, text=True, timeout=timeout, **kw)
    except subprocess.TimeoutExpired as e:
        class R:  # noqa
            returncode = -9
            stdout = (e.stdout or b"").decode() if isinstance(e.stdout, bytes) else (e.stdout or "")
            stderr = "timeout"
        return R()


def demo_run(demo, inc, out, extra):
    flags = ["g++", "-std=c++17", "-O1", "-g", "-I" + inc, demo, "-o", out, "-pthread"] + extra
    c = sh(flags)
    if c.returncode != 0:
        return None, "compile error: " + c.stderr[-400:]
    # interleaving-dependent demos: up to 5 runs, any failing run counts as "fails"
    failed, tail = False, ""
    for _ in range(5):
        r = sh([out], timeout=120)
        tail = (r.stdout + r.stderr)[-400:]
        if r.returncode != 0 or "FAIL" in (r.stdout + r.stderr):
            failed = True
            break
        if "thread" not in open(demo).read():
            break
    return failed, tail


def main():
    ap = argparse.ArgumentParser()
    ap.add_argument("outdir")
    ap.add_argument("n")
    ap.add_argument("--props", default="")
    ap.add_argument("--seed", type=int, default=1)
    ap.add_argument("--tier", default="quick")
    ap.add_argument("--no-store", action="store_true")
    ap.add_argument("--id-suffix", default="")
    a = ap.parse_args()
    prop = os.path.basename(os.path.abspath(a.outdir))
    tag = prop
    prop = prop[:3]
    patch = os.path.join(a.outdir, "patch%s.diff" % a.n)
    demo = os.path.join(a.outdir, "demo%s.cpp" % a.n)
    notes = os.path.join(a.outdir, "notes%s.txt" % a.n)
    sid = "%s-%s%s" % (tag, a.n, a.id_suffix)
    meta = {"id": sid, "breaks_property": prop, "source": "independent sub-agent given only the property text and a scratch worktree",
            "notes_from_author": open(notes).read() if os.path.exists(notes) else ""}
    d = sweep.make_worktree(patch=patch)
    try:
        ok, tail = sweep.unit_tests(d)
        meta["unit_tests_pass_with_change"] = ok
        extra = []
        src = open(demo).read()
        if "CAPPUCCINO_VERIF_HOOKS" in src:
            extra.append("-DCAPPUCCINO_VERIF_HOOKS")
        # the author's own g++ line for the demo decides whether a sanitizer is part of the demonstration
        for ln in meta["notes_from_author"].split("\n"):
            if "g++" in ln and "demo" in ln:
                m = re.search(r"-fsanitize=[\w,]+", ln)
                if m:
                    extra.append(m.group(0))
                break
        if "build this demo with -fsanitize=thread" in src and "-fsanitize=thread" not in extra:
            extra.append("-fsanitize=thread")
        if re.search(r"#\s*error[^\n]*_GLIBCXX_DEBUG", src) or "_GLIBCXX_DEBUG" in meta["notes_from_author"].split("\n")[0]:
            extra.append("-D_GLIBCXX_DEBUG")
        if re.search(r"#\s*error[^\n]*fsanitize=address", src) and not any("address" in e for e in extra):
            extra.append("-fsanitize=address,undefined")
        f1, o1 = demo_run(demo, os.path.join(d, "inc"), os.path.join(d, "demo_with"), extra)
        f0, o0 = demo_run(demo, "/repo/inc", os.path.join(d, "demo_without"), extra)
        meta["demo_fails_with_change"] = f1
        meta["demo_passes_without_change"] = (f0 is False)
        meta["demo_output_with_change"] = o1
        if f0 is not False:
            meta["demo_output_without_change"] = o0
        confirmed = bool(ok and f1 and f0 is False)
        meta["confirmed"] = confirmed
        props = [p for p in a.props.split(",") if p] or [prop]
        meta["what_was_run"] = ["git apply patch.diff in a scratch worktree of /repo HEAD", "cmake + libcappuccino_tests (167 cases)",
                                "demo built against patched and unpatched headers",
                                "VERIF_REPO=<worktree> VERIF_SEED=%d python3 verif.py check <P> --tier %s for P in %s" % (a.seed, a.tier, ",".join(props))]
        res = sweep.run_checks(d, props, a.tier, a.seed)
        meta["checks"] = res
        meta["caught_by"] = [p for p, r in res.items() if r["rc"] == 1]
        meta["not_flagged_by"] = [p for p, r in res.items() if r["rc"] == 0]
        print("%s confirmed=%s unit=%s demo_with_fails=%s demo_without_passes=%s caught_by=%s not_flagged=%s" % (
            sid, confirmed, ok, f1, f0 is False, ",".join(meta["caught_by"]) or "-", ",".join(meta["not_flagged_by"]) or "-"), flush=True)
        for p, r in res.items():
            if r["rc"] == 1:
                print("     %s: %s" % (p, r["first"]))
            elif r["rc"] != 0:
                print("     %s: rc=%s %s" % (p, r["rc"], r["tail"]))
        if not a.no_store:
            sd = os.path.join(ROOT, "seeded", sid)
            os.makedirs(sd, exist_ok=True)
            shutil.copy(patch, os.path.join(sd, "patch.diff"))
            shutil.copy(demo, os.path.join(sd, "demo.cpp"))
            old = {}
            mp = os.path.join(sd, "meta.json")
            if os.path.exists(mp):
                old = json.load(open(mp))
                oc = old.get("checks", {})
                oc.update(meta["checks"])
                meta["checks"] = oc
                meta["caught_by"] = sorted(p for p, r in oc.items() if r["rc"] == 1)
                meta["not_flagged_by"] = sorted(p for p, r in oc.items() if r["rc"] == 0)
            json.dump(meta, open(mp, "w"), indent=1)
    finally:
        sweep.drop_worktree(d)


if __name__ == "__main__":
    main()
