#!/bin/bash
# multi-seed soak on the unchanged tree: every quick check with several seeds, then the thorough tier once
cd "$(dirname "$0")/.."
export VERIF_EVIDENCE_DIR=$PWD/build/soak-evidence
python3 verif.py setup >/dev/null 2>&1
fail=0
for seed in ${SOAK_SEEDS:-2 3 4 5 6}; do
  for p in C01 C02 C03 C04 C05 C06 C07 C08 C09 C10 C11 C12 C13 C14 C15 C16 C17 C18 C19 C20; do
    out=$(VERIF_SEED=$seed python3 verif.py check $p --tier quick 2>&1); rc=$?
    echo "seed=$seed $p rc=$rc $(echo "$out" | grep -E '^\[C' | tail -1)"
    if [ $rc -ne 0 ]; then fail=1; echo "$out" | grep -E "VIOLATION|NOTE|WARNING" -A1 | head -20; fi
  done
done
if [ -n "$SOAK_THOROUGH" ]; then
  for p in C01 C02 C03 C04 C05 C06 C07 C08 C09 C10 C11 C12 C13 C14 C15 C16 C17 C18 C19 C20; do
    out=$(VERIF_SEED=1 python3 verif.py check $p --tier thorough 2>&1); rc=$?
    echo "thorough $p rc=$rc $(echo "$out" | grep -E '^\[C' | tail -1)"
    if [ $rc -ne 0 ]; then fail=1; echo "$out" | grep -E "VIOLATION|NOTE|WARNING" -A1 | head -20; fi
  done
fi
echo "SOAK DONE fail=$fail"
