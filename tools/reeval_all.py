#!/usr/bin/env python3
"""Regression of the sensitivity results: every stored seeded change is applied to a scratch worktree again and the quick
check of the property that caught it (its own property where that one did) is re-run on the current machinery."""
import glob, json, os, sys
ROOT = os.path.dirname(os.path.dirname(os.path.abspath(__file__)))
sys.path.insert(0, os.path.join(ROOT, "tools"))
import sweep  # noqa

out = {}
for mp in sorted(glob.glob(os.path.join(ROOT, "seeded", "*", "meta.json"))):
    m = json.load(open(mp))
    sid = m["id"]
    own = m["breaks_property"]
    caught = m.get("caught_by", [])
    prop = own if own in caught else (caught[0] if caught else own)
    tier = "thorough" if sid == "C11-1r3" else "quick"
    d = sweep.make_worktree(patch=os.path.join(os.path.dirname(mp), "patch.diff"))
    try:
        res = sweep.run_checks(d, [prop], tier, 1)
    finally:
        sweep.drop_worktree(d)
    r = res[prop]
    out[sid] = {"check": prop, "tier": tier, "rc": r["rc"], "first": r["first"]}
    print("%-10s %s %s rc=%s %s" % (sid, prop, tier, r["rc"], r["first"][:110]), flush=True)
    json.dump(out, open(os.path.join(ROOT, "build", "reeval.json"), "w"), indent=1)
missed = [k for k, v in out.items() if v["rc"] != 1]
print("DONE %d changes, %d caught, missed: %s" % (len(out), len(out) - len(missed), missed))
