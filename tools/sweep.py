#!/usr/bin/env python3
"""Sensitivity sweep: apply one change to a scratch worktree of /repo (never to /repo itself), run the
quick checks of the named properties against it (VERIF_REPO), report which checks raise an alarm.

  tools/sweep.py --patch seeded/X/patch.diff --props C01,C03 [--tier quick] [--seed 1]
  tools/sweep.py --mutant M07               (built-in edit list in tools/mutants.py)
  tools/sweep.py --all-mutants [--jobs 1]
"""
import argparse, json, os, re, shutil, subprocess, sys, tempfile, time

ROOT = os.path.dirname(os.path.dirname(os.path.abspath(__file__)))
sys.path.insert(0, os.path.join(ROOT, "tools"))


def sh(cmd, **kw):
    return subprocess.run(cmd, capture_output=True, text=True, **kw)


def make_worktree(patch=None, edit=None, base="HEAD"):
    d = tempfile.mkdtemp(prefix="verif-sw-", dir="/tmp")
    os.rmdir(d)
    r = sh(["git", "-C", "/repo", "worktree", "add", "--detach", d, base, "-q"])
    if r.returncode != 0:
        raise SystemExit("worktree: " + r.stderr)
    if patch:
        r = sh(["git", "-C", d, "apply", os.path.abspath(patch)])
        if r.returncode != 0:
            drop_worktree(d)
            raise SystemExit("patch does not apply: " + r.stderr)
    if edit:
        f, old, new = edit
        p = os.path.join(d, f)
        s = open(p).read()
        if s.count(old) < 1:
            drop_worktree(d)
            raise SystemExit("mutant anchor not found in " + f + ": " + old[:60])
        open(p, "w").write(s.replace(old, new, 1))
    return d


def drop_worktree(d):
    sh(["git", "-C", "/repo", "worktree", "remove", "--force", d])
    shutil.rmtree(d, ignore_errors=True)


def unit_tests(d):
    b = os.path.join(d, "_b")
    r = sh("cmake -G Ninja -S %s -B %s >/dev/null 2>&1 && cmake --build %s 2>&1 | tail -3 && %s/test/libcappuccino_tests | tail -2" % (d, b, b, b), shell=True)
    ok = "All tests passed" in r.stdout
    shutil.rmtree(b, ignore_errors=True)
    return ok, r.stdout[-300:]


def run_checks(d, props, tier, seed):
    res = {}
    env = dict(os.environ, VERIF_REPO=d, VERIF_SEED=str(seed), VERIF_EVIDENCE_DIR=os.path.join(ROOT, "build", "sweep-evidence"))
    for p in props:
        t0 = time.time()
        r = sh([sys.executable, os.path.join(ROOT, "verif.py"), "check", p, "--tier", tier], env=env, cwd=ROOT)
        viol = [ln for ln in r.stdout.split("\n") if ln.startswith("VIOLATION")]
        desc = ""
        m = re.search(r"^VIOLATION[^\n]*\n  ([^\n]*)", r.stdout, re.M)
        if m:
            desc = m.group(1)[:200]
        res[p] = {"rc": r.returncode, "violations": len(viol), "first": desc, "wall_s": round(time.time() - t0, 1),
                  "tail": r.stdout.strip().split("\n")[-1][:200]}
    return res


def main():
    ap = argparse.ArgumentParser()
    ap.add_argument("--patch")
    ap.add_argument("--mutant")
    ap.add_argument("--all-mutants", action="store_true")
    ap.add_argument("--props", default="")
    ap.add_argument("--tier", default="quick")
    ap.add_argument("--seed", type=int, default=1)
    ap.add_argument("--unit", action="store_true", help="also build and run the repository's unit tests with the change")
    ap.add_argument("--out")
    a = ap.parse_args()
    from mutants import MUTANTS
    todo = []
    if a.patch:
        todo.append((os.path.basename(os.path.dirname(os.path.abspath(a.patch))) or "patch", a.patch, None, a.props.split(",") if a.props else []))
    if a.mutant:
        m = MUTANTS[a.mutant]
        todo.append((a.mutant, None, (m["file"], m["old"], m["new"]), a.props.split(",") if a.props else m["props"]))
    if a.all_mutants:
        for k, m in sorted(MUTANTS.items()):
            todo.append((k, None, (m["file"], m["old"], m["new"]), m["props"]))
    table = {}
    for name, patch, edit, props in todo:
        d = make_worktree(patch, edit)
        try:
            row = {}
            if a.unit:
                ok, tail = unit_tests(d)
                row["unit_tests_pass"] = ok
            row["checks"] = run_checks(d, props, a.tier, a.seed)
            table[name] = row
            caught = [p for p, r in row["checks"].items() if r["rc"] == 1]
            print("%-28s unit=%s caught_by=%s missed_by=%s" % (name, row.get("unit_tests_pass", "-"), ",".join(caught) or "-",
                                                               ",".join(p for p in props if p not in caught) or "-"), flush=True)
            for p, r in row["checks"].items():
                if r["rc"] == 1:
                    print("      %s: %s" % (p, r["first"]), flush=True)
                elif r["rc"] != 0:
                    print("      %s: rc=%s %s" % (p, r["rc"], r["tail"]), flush=True)
        finally:
            drop_worktree(d)
    if a.out:
        json.dump(table, open(a.out, "w"), indent=1)


if __name__ == "__main__":
    main()
