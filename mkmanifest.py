#!/usr/bin/env python3
"""Regenerates MANIFEST.json from props.py (single source of truth for what is claimed)."""
import json, os, sys
ROOT = os.path.dirname(os.path.abspath(__file__))
sys.path.insert(0, ROOT)
from props import PROPS, MANIFEST_TEXT, NOT_APPLICABLE, HOOK_COMMITS  # noqa

checks = []
for pid in sorted(PROPS):
    c = PROPS[pid]
    t = MANIFEST_TEXT[pid]
    checks.append({
        "property_id": pid,
        "quick_cmd": "python3 verif.py check %s --tier quick" % pid,
        "thorough_cmd": "python3 verif.py check %s --tier thorough" % pid,
        "evidence_file": "/verif/evidence/%s.json" % pid,
        "replay_cmd_template": "python3 verif.py replay %s {path}" % pid,
        "engine": t["engine"],
        "level_claimed": {"category": "exploration", "text": t["level"], "design_ref": t["ref"]},
        "level_note": t["note"],
        "technique": t["technique"],
    })
m = {
    "version": 1,
    "setup_cmd": "python3 verif.py setup",
    "hooks": {
        "guard": "CAPPUCCINO_VERIF_HOOKS",
        "enable": "only the schedule engine (E3: property C06, and its ThreadSanitizer build used as the second phase of C07) compiles /repo/inc with -DCAPPUCCINO_VERIF_HOOKS; every other engine builds the production text of the headers",
        "baseline_off_cmd": "rm -rf /tmp/verif-baseline && cmake -G Ninja -S /repo -B /tmp/verif-baseline >/dev/null && cmake --build /tmp/verif-baseline >/dev/null && /tmp/verif-baseline/test/libcappuccino_tests; rc=$?; rm -rf /tmp/verif-baseline; exit $rc",
        "source_commits": HOOK_COMMITS,
        "add_only": True,
    },
    "engines": [
        {"name": "E1 seq", "path": "src/engine.cpp", "serves_properties": [p for p in sorted(PROPS) if PROPS[p].get("driver", "seq") == "seq"],
         "kind_free_text": "sequential engine: rapidcheck Gen<Case> -> real container under ASan+UBSan+_GLIBCXX_DEBUG vs reference model / twin instance / histogram"},
        {"name": "E2 fuzz", "path": "src/fuzz_seq.cpp", "serves_properties": [p for p in sorted(PROPS) if PROPS[p].get("thorough", {}).get("fuzz_s") or PROPS[p].get("quick", {}).get("fuzz_s")],
         "kind_free_text": "libFuzzer target: bytes -> Case -> the same run_case oracle"},
        {"name": "E3 sched", "path": "src/sched.cpp", "serves_properties": [p for p in sorted(PROPS) if PROPS[p].get("driver") == "sched"],
         "kind_free_text": "baton scheduler over lock.hpp hooks; oracle = sequential re-execution search (linearizability)"},
        {"name": "E4 race", "path": "src/race.cpp", "serves_properties": [p for p in sorted(PROPS) if PROPS[p].get("driver") == "race"],
         "kind_free_text": "free-running threads under ThreadSanitizer: complete method-pair matrix + random programs"},
        {"name": "E3 sched (TSan build)", "path": "src/sched.cpp", "serves_properties": ["C07"],
         "kind_free_text": "the schedule engine compiled with -fsanitize=thread, scheduler hidden from TSan by annotations: race detection under harness-chosen schedules"},
        {"name": "E1 seq (plain build)", "path": "src/twin.cpp", "serves_properties": ["C15"],
         "kind_free_text": "sanitizer-free build of the sequential engine for the rr mass-survival runs at capacity up to 140000"},
    ],
    "checks": checks,
    "not_applicable": NOT_APPLICABLE,
    "notes": "All checks: python3 stdlib driver verif.py; builds are cached under /verif/build/<engine>-<hash of /repo/inc + harness sources> and rebuilt whenever /repo/inc changes. VERIF_SEED selects the generator seeds. Known findings: known_findings.json.",
}
json.dump(m, open(os.path.join(ROOT, "MANIFEST.json"), "w"), indent=1)
print("MANIFEST.json written:", len(checks), "checks,", len(NOT_APPLICABLE), "not_applicable")
