#!/usr/bin/env python3
"""Driver of the libcappuccino verification machinery (python3 stdlib only).

  python3 verif.py setup                       pre-build every engine for the current /repo tree
  python3 verif.py check Cxx --tier quick|thorough
  python3 verif.py replay Cxx <file.case>
  python3 verif.py minimize Cxx <file.case>    ddmin a failing/crashing case through replay subprocesses

Exit status of check: 0 = the property held on everything explored (known findings are printed as
KNOWN-FINDING lines), 1 = a violation that known_findings.json does not list
(line "VIOLATION property=<id> replay=<path>"), 2 = the machinery itself failed (build error ...).
"""
import concurrent.futures as cf
import hashlib
import json
import os
import re
import shutil
import subprocess
import sys
import time

ROOT = os.path.dirname(os.path.abspath(__file__))
SRC = os.path.join(ROOT, "src")
REPO = os.environ.get("VERIF_REPO", "/repo")
BUILD_ROOT = os.path.join(ROOT, "build")
NCPU = max(2, min(16, os.cpu_count() or 4))
ALL_KINDS = ["lru", "mru", "fifo", "lfu", "lfuda", "rr", "tlru", "utlru", "ut_map", "ut_set"]

sys.path.insert(0, ROOT)
from props import PROPS  # noqa: E402  (per-property configuration)


def log(*a):
    print(*a, flush=True)


# --------------------------------------------------------------------------------------------------
# build
# --------------------------------------------------------------------------------------------------
def tree_hash(paths, extra=""):
    h = hashlib.sha256(extra.encode())
    for p in paths:
        if os.path.isdir(p):
            for d, _, fs in sorted(os.walk(p)):
                for f in sorted(fs):
                    fp = os.path.join(d, f)
                    h.update(fp.encode())
                    with open(fp, "rb") as fh:
                        h.update(fh.read())
        elif os.path.exists(p):
            h.update(p.encode())
            with open(p, "rb") as fh:
                h.update(fh.read())
    return h.hexdigest()[:16]


GXX_E1 = ["g++", "-std=gnu++17", "-O1", "-g", "-fsanitize=address,undefined", "-fno-sanitize-recover=undefined",
          "-D_GLIBCXX_DEBUG", "-fno-omit-frame-pointer"]
CLANG_FUZZ = ["clang++", "-std=gnu++17", "-O1", "-g", "-fsanitize=fuzzer-no-link,address,undefined",
              "-fno-sanitize-recover=undefined", "-D_GLIBCXX_DEBUG", "-fno-omit-frame-pointer"]
CLANG_TSAN = ["clang++", "-std=gnu++17", "-O1", "-g", "-fsanitize=thread", "-fno-omit-frame-pointer", "-fno-inline"]
GXX_SCHED = ["g++", "-std=gnu++17", "-O1", "-g", "-fsanitize=address,undefined", "-fno-sanitize-recover=undefined",
             "-DCAPPUCCINO_VERIF_HOOKS", "-DVERIF_VALUE_POINTS", "-fno-omit-frame-pointer", "-pthread"]


def engine_spec(name):
    inc = ["-I" + os.path.join(REPO, "inc"), "-I" + SRC]
    if name == "seq":
        objs = [("ad%d" % k, "adapters.cpp", GXX_E1 + ["-DVERIF_KIND=%d" % k]) for k in range(10)]
        objs += [(n, n + ".cpp", GXX_E1) for n in ("box_common", "engine", "twin", "main_seq", "interpose")]
        objs += [("gen_rc", "gen_rc.cpp", ["g++", "-std=gnu++17", "-O1", "-g"])]
        link = ["g++", "-fsanitize=address,undefined"]
        libs = ["-lrapidcheck"]
    elif name == "schedtsan":
        # the schedule engine with ThreadSanitizer as the oracle (C07): the baton scheduler chooses the interleaving, its own
        # synchronisation is hidden from TSan by annotations, so a race that needs a particular interleaving is both reached and seen
        fl = ["clang++", "-std=gnu++17", "-O1", "-g", "-fsanitize=thread", "-fno-omit-frame-pointer", "-DCAPPUCCINO_VERIF_HOOKS", "-DVERIF_VALUE_POINTS",
              "-DVERIF_TSAN_SCHED", "-pthread"]
        objs = [("ad%d" % k, "adapters.cpp", fl + ["-DVERIF_KIND=%d" % k]) for k in range(10)]
        objs += [(n, n + ".cpp", fl) for n in ("box_common", "interpose", "sched")]
        link = ["clang++", "-fsanitize=thread", "-pthread"]
        libs = ["-lrapidcheck"]
    elif name == "plain":
        # the sequential engine without sanitizers and without checked iterators (whose bookkeeping is linear in the number of
        # stored iterators): only for the statistical rr runs at large capacities, where the oracle is a count
        fl = ["g++", "-std=gnu++17", "-O2", "-g"]
        objs = [("ad%d" % k, "adapters.cpp", fl + ["-DVERIF_KIND=%d" % k]) for k in range(10)]
        objs += [(n, n + ".cpp", fl) for n in ("box_common", "engine", "twin", "main_seq", "interpose", "gen_rc")]
        link = ["g++"]
        libs = ["-lrapidcheck"]
    elif name == "fuzz":
        objs = [("ad%d" % k, "adapters.cpp", CLANG_FUZZ + ["-DVERIF_KIND=%d" % k]) for k in range(10)]
        objs += [(n, n + ".cpp", CLANG_FUZZ) for n in ("box_common", "engine", "twin", "interpose", "fuzz_seq")]
        link = ["clang++", "-fsanitize=fuzzer,address,undefined"]
        libs = []
    elif name == "race":
        objs = [("ad%d" % k, "adapters.cpp", CLANG_TSAN + ["-DVERIF_KIND=%d" % k]) for k in range(10)]
        objs += [(n, n + ".cpp", CLANG_TSAN) for n in ("box_common", "interpose", "race")]
        link = ["clang++", "-fsanitize=thread", "-pthread"]
        libs = []
    elif name == "sched":
        objs = [("ad%d" % k, "adapters.cpp", GXX_SCHED + ["-DVERIF_KIND=%d" % k]) for k in range(10)]
        objs += [(n, n + ".cpp", GXX_SCHED) for n in ("box_common", "interpose")]
        objs += [("sched", "sched.cpp", ["g++", "-std=gnu++17", "-O1", "-g", "-DCAPPUCCINO_VERIF_HOOKS", "-DVERIF_VALUE_POINTS", "-pthread"])]
        link = ["g++", "-fsanitize=address,undefined", "-pthread"]
        libs = ["-lrapidcheck"]
    else:
        raise SystemExit("unknown engine " + name)
    return inc, objs, link, libs


def build(name, quiet=False):
    """(Re)build an engine for the current /repo working tree; returns the binary path."""
    inc, objs, link, libs = engine_spec(name)
    srcs = sorted(set(os.path.join(SRC, s) for _, s, _ in objs)) + \
        [os.path.join(SRC, f) for f in sorted(os.listdir(SRC)) if f.endswith(".hpp")]
    key = tree_hash([os.path.join(REPO, "inc")] + srcs, extra=name + json.dumps([o[2] for o in objs]) + REPO)
    bdir = os.path.join(BUILD_ROOT, name + "-" + key)
    binp = os.path.join(bdir, name)
    if os.path.exists(binp):
        os.utime(bdir, None)
        return binp
    os.makedirs(bdir, exist_ok=True)
    t0 = time.time()
    if not quiet:
        log("[build] %s for tree %s ..." % (name, key))

    def cc(o):
        oname, src, flags = o
        out = os.path.join(bdir, oname + ".o")
        cmd = flags + inc + ["-c", os.path.join(SRC, src), "-o", out]
        p = subprocess.run(cmd, capture_output=True, text=True)
        return (oname, p.returncode, p.stderr)

    with cf.ThreadPoolExecutor(NCPU) as ex:
        res = list(ex.map(cc, objs))
    bad = [r for r in res if r[1] != 0]
    if bad:
        for oname, _, err in bad[:3]:
            log("[build] FAILED %s\n%s" % (oname, err[-4000:]))
        shutil.rmtree(bdir, ignore_errors=True)
        raise SystemExit(2)
    cmd = link + [os.path.join(bdir, o[0] + ".o") for o in objs] + libs + ["-o", binp + ".tmp"]
    p = subprocess.run(cmd, capture_output=True, text=True)
    if p.returncode != 0:
        log("[build] link failed\n" + p.stderr[-4000:])
        shutil.rmtree(bdir, ignore_errors=True)
        raise SystemExit(2)
    os.rename(binp + ".tmp", binp)
    for o in objs:
        try:
            os.remove(os.path.join(bdir, o[0] + ".o"))
        except OSError:
            pass
    if not quiet:
        log("[build] %s done in %.0fs" % (name, time.time() - t0))
    prune_builds(name, keep=bdir)
    return binp


def prune_builds(name, keep):
    """keep the two most recent build dirs per engine (disk is limited)"""
    try:
        ds = [os.path.join(BUILD_ROOT, d) for d in os.listdir(BUILD_ROOT) if d.startswith(name + "-")]
    except OSError:
        return
    ds.sort(key=lambda d: os.path.getmtime(d), reverse=True)
    now = time.time()
    for d in ds[2:]:
        # never remove a directory another concurrent run may still be building in or using
        if d != keep and now - os.path.getmtime(d) > 3600:
            shutil.rmtree(d, ignore_errors=True)


# --------------------------------------------------------------------------------------------------
# helpers
# --------------------------------------------------------------------------------------------------
SAN_ENV = {
    "ASAN_OPTIONS": "detect_leaks=1:abort_on_error=0:allocator_may_return_null=1:detect_stack_use_after_return=0:handle_abort=1",
    "UBSAN_OPTIONS": "print_stacktrace=1:halt_on_error=1",
}


def run_replay(binp, prop, mode, path, strict_f8=False, timeout=120):
    cmd = [binp, "replay", "--property", prop, "--mode", mode] + (["--strict-f8"] if strict_f8 else []) + [path]
    env = dict(os.environ, **SAN_ENV)
    try:
        p = subprocess.run(cmd, capture_output=True, text=True, env=env, timeout=timeout)
    except subprocess.TimeoutExpired:
        return {"verdict": -2, "crash": False, "out": "timeout", "err": ""}
    out = p.stdout
    r = {"verdict": None, "crash": False, "out": out, "err": p.stderr[-6000:], "rc": p.returncode}
    m = re.search(r"^verdict (\d)", out, re.M)
    if m and p.returncode in (0, 1, 2, 3):
        r["verdict"] = int(m.group(1))
    else:
        r["crash"] = True
        r["verdict"] = -1
    for key in ("pred", "tags", "step", "msg"):
        m = re.search(r"^%s (.*)$" % key, out, re.M)
        r[key] = m.group(1) if m else ""
    return r


def crash_signature(err):
    """one line naming the sanitizer / debug-mode complaint"""
    for pat in (r"ERROR: AddressSanitizer: ([^\n]*)", r"runtime error: ([^\n]*)", r"Error: ([^\n]*)", r"VERIF-TRACKED: ([^\n]*)",
                r"ERROR: LeakSanitizer: ([^\n]*)", r"WARNING: ThreadSanitizer: ([^\n]*)"):
        m = re.search(pat, err)
        if m:
            return m.group(0)[:200]
    return "abnormal termination"


def parse_stats(path):
    st = {"evaluations": 0, "generated": 0, "nontrivial": 0, "hashes": set(), "labels": {}, "cases_with": {}, "foreign": {},
          "kinds": {}, "samples": [], "foreign_samples": [], "failed": False}
    if not os.path.exists(path):
        return None
    with open(path) as fh:
        lines = fh.read().split("\n")
    i = 0
    while i < len(lines):
        ln = lines[i]
        i += 1
        if ln.endswith("<<<"):
            key = ln[:-3]
            buf = []
            while i < len(lines) and lines[i] != ">>>":
                buf.append(lines[i])
                i += 1
            i += 1
            txt = "\n".join(buf) + "\n"
            if key == "sample":
                st["samples"].append(txt)
            elif key == "foreign_sample":
                st["foreign_samples"].append(txt)
            elif key == "fail_case":
                st["fail_case"] = txt
            continue
        parts = ln.split(" ")
        if parts[0] in ("evaluations", "generated", "nontrivial"):
            st[parts[0]] = int(parts[1])
        elif parts[0] == "hash":
            st["hashes"].add(parts[1])
        elif parts[0] == "label":
            st["labels"][parts[1]] = int(parts[2])
        elif parts[0] == "cases_with":
            st["cases_with"][parts[1]] = int(parts[2])
        elif parts[0] == "foreign":
            st["foreign"][parts[1]] = int(parts[2])
        elif parts[0] == "kind":
            st["kinds"][parts[1]] = [int(parts[2]), int(parts[3])]
        elif parts[0] == "failed":
            st["failed"] = True
        elif parts[0] in ("fail_pred", "fail_tags", "fail_step", "fail_msg"):
            st[parts[0]] = " ".join(parts[1:])
    return st


def load_known():
    p = os.path.join(ROOT, "known_findings.json")
    if not os.path.exists(p):
        return []
    with open(p) as fh:
        return json.load(fh).get("findings", [])


def case_header(text):
    h = {}
    for ln in text.split("\n"):
        if ln.startswith("--"):
            break
        ps = ln.split()
        if len(ps) >= 2 and not ln.startswith("#"):
            h[ps[0]] = ps[1]
    return h


def match_known(prop, pred, case_text):
    """a violation is 'known' only if its structured signature is listed (status known)"""
    h = case_header(case_text)
    for f in load_known():
        if f.get("status") != "known" or f.get("property") != prop:
            continue
        sig = f.get("signature", {})
        if sig.get("predicate") and pred not in sig["predicate"]:
            continue
        if sig.get("container") and h.get("kind") not in sig["container"]:
            continue
        ok = True
        for k, v in sig.get("header", {}).items():
            if str(h.get(k)) != str(v):
                ok = False
        if ok:
            return f
    return None


# --------------------------------------------------------------------------------------------------
# minimisation through subprocesses (for failures that kill the process)
# --------------------------------------------------------------------------------------------------
def split_case(text):
    head, ops = [], []
    seen = False
    for ln in text.split("\n"):
        if not seen:
            head.append(ln)
            if ln.startswith("--"):
                seen = True
        elif ln.strip() and not ln.startswith("#"):
            ops.append(ln)
    return [h for h in head if not h.startswith("#")], ops


def minimize(binp, prop, mode, text, same, workdir, budget_s=120):
    """ddmin over operations; `same(result)` says whether a candidate still fails the same way"""
    head, ops = split_case(text)
    t0 = time.time()
    tmp = os.path.join(workdir, "min-%d.case" % os.getpid())

    def fails(cand_ops):
        with open(tmp, "w") as fh:
            fh.write("\n".join(head) + "\n" + "\n".join(cand_ops) + "\n")
        return same(run_replay(binp, prop, mode, tmp))

    # drop the tail after the failure first (cheap big win)
    lo, hi = 0, len(ops)
    while lo < hi and time.time() - t0 < budget_s:
        mid = (lo + hi) // 2
        if fails(ops[:mid]):
            hi = mid
        else:
            lo = mid + 1
    ops = ops[:hi]
    n = 2
    while len(ops) >= 2 and time.time() - t0 < budget_s:
        chunk = max(1, len(ops) // n)
        reduced = False
        for i in range(0, len(ops), chunk):
            cand = ops[:i] + ops[i + chunk:]
            if cand and fails(cand):
                ops = cand
                n = max(n - 1, 2)
                reduced = True
                break
        if not reduced:
            if chunk == 1:
                break
            n = min(len(ops), n * 2)
    try:
        os.remove(tmp)
    except OSError:
        pass
    return "\n".join(head) + "\n" + "\n".join(ops) + "\n"


# --------------------------------------------------------------------------------------------------
# the sequential checks (E1 [+E2])
# --------------------------------------------------------------------------------------------------
def seq_check(prop, tier, seed, cfg):
    t0 = time.time()
    binp = build(cfg.get("engine_bin", "seq"))
    mode = cfg["mode"]
    tcfg = cfg[tier]
    work = os.path.join(BUILD_ROOT, "work", "%s-%s-%d" % (prop, tier, os.getpid()))
    shutil.rmtree(work, ignore_errors=True)
    os.makedirs(work)
    repdir = os.path.join(ROOT, "replays", prop)
    os.makedirs(repdir, exist_ok=True)

    violations = []      # (replay path, description)
    known_lines = []
    notes = []
    corpus_runs = 0
    samples = []

    # 1. replay tier: hand-written seeds and shrunk past failures
    cdir = os.path.join(ROOT, "corpus", prop)
    known_reproduced = {}
    if os.path.isdir(cdir):
        todo = []
        for fn in sorted(os.listdir(cdir)):
            if not fn.endswith(".case"):
                continue
            path = os.path.join(cdir, fn)
            text = open(path).read()
            directed_known = "# known-finding" in text
            cmode = mode
            m = re.search(r"^# mode (\S+)", text, re.M)
            if m:
                cmode = m.group(1)
            todo.append((fn, path, text, directed_known, cmode))
        with cf.ThreadPoolExecutor(NCPU) as ex:
            done = list(ex.map(lambda t: run_replay(binp, prop, t[4], t[1], strict_f8=t[3], timeout=600), todo))
        for (fn, path, text, directed_known, cmode), r in zip(todo, done):
            corpus_runs += 1
            if r["crash"]:
                if prop == "C08" or cfg.get("engine_bin") == "sched":
                    violations.append((path, "corpus case dies: " + crash_signature(r["err"])))
                else:
                    notes.append("corpus case %s terminated abnormally (%s): a C08 matter" % (fn, crash_signature(r["err"])))
            elif r["verdict"] == 1:
                kf = match_known(prop, r["pred"], text) if directed_known else None
                if kf:
                    known_reproduced[kf["id"]] = (kf, r, path)
                else:
                    violations.append((path, "%s: %s" % (r["pred"], r["msg"])))
            elif directed_known:
                notes.append("known finding no longer reproduces with %s (now passes)" % fn)
    for kid, (kf, r, path) in sorted(known_reproduced.items()):
        known_lines.append("KNOWN-FINDING: property=%s %s [%s; reproduced by %s: %s]" % (prop, kf["text"], kid, os.path.relpath(path, ROOT), r["msg"]))

    # 2. generated search: NCPU rapidcheck workers, each a pure function of (seed, property, worker)
    workers = tcfg.get("workers", NCPU)
    base = (seed * 1000003 + int(hashlib.sha256(prop.encode()).hexdigest()[:6], 16)) % (2 ** 31)
    jobs = []
    plan = (cfg.get("thorough_profiles") if tier == "thorough" else None) or cfg.get("profiles") or [(cfg["profile"], cfg.get("kinds"), mode, 1.0)]
    engines = {}
    for w in range(workers):
        ent = plan[w % len(plan)]
        profile, kinds, wmode, scale = ent[:4]
        if len(ent) > 4:
            engines[w] = build(ent[4])
        jobs.append((w, (profile, wmode, scale), kinds, 0))

    def run_worker(job):
        w, (profile, wmode, scale), kinds, attempt = job
        env = dict(os.environ, **SAN_ENV)
        env.update(tcfg.get("env", {}))
        env["RC_PARAMS"] = "seed=%d max_success=%d max_size=%d" % (base + w * 7919 + attempt * 104729, max(1, int(tcfg["cases"] * scale)), tcfg["max_size"])
        cmd = [engines.get(w, binp), "gen", "--property", prop, "--mode", wmode, "--profile", profile, "--out", work, "--worker", str(w)]
        if kinds:
            cmd += ["--kinds", ",".join(kinds)]
        for f in ("stats-w%d.txt", "fail-w%d.case", "crash-w%d.case"):
            try:
                os.remove(os.path.join(work, f % w))
            except OSError:
                pass
        try:
            p = subprocess.run(cmd, capture_output=True, text=True, env=env, timeout=tcfg.get("timeout", 3000))
            return (job, p.returncode, p.stderr[-8000:])
        except subprocess.TimeoutExpired:
            return (job, -9, "timeout")

    agg = {"evaluations": 0, "generated": 0, "nontrivial": 0, "hashes": set(), "labels": {}, "cases_with": {}, "foreign": {},
           "kinds": {}, "crashes": 0, "timeouts": 0}
    foreign_samples = []
    pending = list(jobs)
    rounds = 0
    while pending and rounds < 4:
        rounds += 1
        with cf.ThreadPoolExecutor(NCPU) as ex:
            results = list(ex.map(run_worker, pending))
        pending = []
        for (job, rc, err) in results:
            w, (profile, wmode, scale), kinds, attempt = job
            st = parse_stats(os.path.join(work, "stats-w%d.txt" % w))
            if st:
                for k in ("evaluations", "generated", "nontrivial"):
                    agg[k] += st[k]
                agg["hashes"] |= st["hashes"]
                for d in ("labels", "cases_with", "foreign"):
                    for k, v in st[d].items():
                        agg[d][k] = agg[d].get(k, 0) + v
                for k, v in st["kinds"].items():
                    a = agg["kinds"].setdefault(k, [0, 0])
                    a[0] += v[0]
                    a[1] += v[1]
                for s in st["samples"]:
                    if len(samples) < 5:
                        samples.append(s)
                foreign_samples += st["foreign_samples"][:1]
                if st["failed"]:
                    name = "%s-%s-seed%d-w%d.case" % (prop, tier, seed, w)
                    path = os.path.join(repdir, name)
                    with open(path, "w") as fh:
                        fh.write("# property %s mode %s\n# predicate %s [%s] step %s\n# %s\n%s" % (
                            prop, wmode, st.get("fail_pred"), st.get("fail_tags"), st.get("fail_step"), st.get("fail_msg"), st["fail_case"]))
                    # confirm in a fresh process, three times
                    oks = [run_replay(engines.get(w, binp), prop, wmode, path) for _ in range(3)]
                    if all(o["verdict"] == 1 for o in oks):
                        kf = match_known(prop, oks[0]["pred"], st["fail_case"])
                        if kf:
                            known_lines.append("KNOWN-FINDING: property=%s %s [%s; found by search: %s]" % (prop, kf["text"], kf["id"], oks[0]["msg"]))
                        else:
                            violations.append((path, "%s: %s" % (oks[0]["pred"], oks[0]["msg"])))
                    else:
                        notes.append("worker %d reported a failure that did not replay (%s) - not counted" % (w, [o["verdict"] for o in oks]))
                    continue
            if rc == -9:
                agg["timeouts"] += 1
                notes.append("worker %d hit the wall-clock budget: inconclusive for its share" % w)
                continue
            if rc not in (0, 1):
                # the process died: sanitizer / checked-iterator / Tracked abort
                agg["crashes"] += 1
                cpath = os.path.join(work, "crash-w%d.case" % w)
                sig = crash_signature(err)
                if os.path.exists(cpath):
                    text = open(cpath).read()
                    if prop == "C08":
                        def same(r, sig=sig):
                            return r["crash"] and crash_signature(r["err"]).split(":")[0:2] == sig.split(":")[0:2]
                        r0 = run_replay(binp, prop, wmode, cpath)
                        if r0["crash"]:
                            mtext = minimize(binp, prop, wmode, text, same, work, budget_s=90)
                            name = "%s-%s-seed%d-w%d-crash.case" % (prop, tier, seed, w)
                            path = os.path.join(repdir, name)
                            with open(path, "w") as fh:
                                fh.write("# property C08 mode %s\n# %s\n%s" % (wmode, sig, mtext))
                            violations.append((path, sig))
                        else:
                            notes.append("worker %d died (%s) but its last case replays cleanly - not counted" % (w, sig))
                    elif cfg.get("crash_rule") == "after_clear":
                        # C20: the continuation after clear() dies although the same continuation on a freshly constructed
                        # container does not - the cleared container is distinguishable from a new one
                        r0 = run_replay(binp, prop, wmode, cpath)
                        head, ops = split_case(text)
                        last = max([i for i, o in enumerate(ops) if o.split()[0] == "clear"] or [-1])
                        if r0["crash"] and last >= 0:
                            keep = [o for o in ops[:last] if o.split()[0] in ("uttl", "adv")] + ops[last + 1:]
                            fp = os.path.join(work, "fresh-w%d.case" % w)
                            with open(fp, "w") as fh:
                                fh.write("\n".join(head) + "\n" + "\n".join(keep) + "\n")
                            r1 = run_replay(binp, prop, "model", fp)
                            if not r1["crash"]:
                                def same(r, sig=sig):
                                    return r["crash"]
                                mtext = minimize(binp, prop, wmode, text, same, work, budget_s=60)
                                name = "%s-%s-seed%d-w%d-crash.case" % (prop, tier, seed, w)
                                path = os.path.join(repdir, name)
                                with open(path, "w") as fh:
                                    fh.write("# property C20 mode %s\n# the continuation after clear() dies (%s); the same continuation on a fresh container does not\n%s" % (wmode, sig, mtext))
                                violations.append((path, "crash_after_clear_only: " + sig))
                                continue
                        agg["foreign"]["C08"] = agg["foreign"].get("C08", 0) + 1
                    elif cfg.get("engine_bin") == "sched":
                        # the dumped program carries the schedule that was running.  A death that needs the interleaving
                        # (the same program run thread after thread survives) is a C06 violation, not just a C08 matter.
                        r0 = run_replay(binp, prop, wmode, cpath)
                        seqp = os.path.join(work, "seq-w%d.case" % w)
                        with open(seqp, "w") as fh:
                            fh.write(text)
                        p1 = subprocess.run([binp, "replay", "--property", prop, "--sequential", seqp], capture_output=True, text=True,
                                            env=dict(os.environ, **SAN_ENV))
                        seq_ok = p1.returncode in (0, 1) and "verdict" in p1.stdout
                        if r0["crash"] and seq_ok:
                            name = "%s-%s-seed%d-w%d-crash.case" % (prop, tier, seed, w)
                            path = os.path.join(repdir, name)
                            with open(path, "w") as fh:
                                fh.write("# property C06 mode sched\n# dies only under this interleaving (%s); the same program run thread after thread completes\n%s" % (sig, text))
                            violations.append((path, "crash_under_interleaving: " + sig))
                        else:
                            agg["foreign"]["C08"] = agg["foreign"].get("C08", 0) + 1
                    else:
                        agg["foreign"]["C08"] = agg["foreign"].get("C08", 0) + 1
                        if len(foreign_samples) < 3:
                            foreign_samples.append("# process died: %s\n%s" % (sig, text))
                        if attempt < 3 and not violations:
                            pending.append((w, (profile, wmode, scale), kinds, attempt + 1))
                else:
                    notes.append("worker %d died without leaving a case: %s" % (w, err[-300:]))

    # 3. coverage-guided search on the same oracle (E2), where configured
    fuzz_info = None
    if tcfg.get("fuzz_s") and not violations:
        fuzz_info = fuzz_campaign(prop, mode, tcfg, seed, work, repdir, violations, notes, agg, cfg)

    wall = time.time() - t0
    write_evidence(prop, tier, seed, cfg, agg, samples, foreign_samples, violations, known_lines, notes, corpus_runs, wall, fuzz_info)
    shutil.rmtree(work, ignore_errors=True)
    for ln in known_lines:
        log(ln)
    for n in notes:
        log("NOTE: " + n)
    starved = [k for k in cfg.get("needs", []) if agg["generated"] and agg["cases_with"].get(k, 0) < 0.05 * agg["generated"]]
    if starved:
        log("WARNING: label classes below 5%% of cases: %s" % ", ".join(starved))
    log("[%s %s] %d cases generated (%d evaluations incl. shrinking), %d distinct non-trivial, %d foreign, %.1fs" % (
        prop, tier, agg["generated"], agg["evaluations"], len(agg["hashes"]), sum(agg["foreign"].values()), wall))
    if violations:
        for path, desc in violations[:5]:
            log("VIOLATION property=%s replay=%s" % (prop, path))
            log("  " + desc)
        return 1
    return 0


def fuzz_campaign(prop, mode, tcfg, seed, work, repdir, violations, notes, agg, cfg):
    binp = build("fuzz")
    jobs = tcfg.get("fuzz_jobs", NCPU)
    secs = tcfg["fuzz_s"]
    env = dict(os.environ, **SAN_ENV)
    env["VERIF_FUZZ_PROPERTY"] = prop
    env["VERIF_FUZZ_MODE"] = mode
    info = {"jobs": jobs, "seconds_each": secs, "execs": 0, "nontrivial": 0, "seed_corpus_files": 0}
    # seed corpus: every hand-written / shrunk text case, encoded to the byte format (odd jobs start from it, even jobs from nothing)
    seeds = os.path.join(work, "fz-seeds")
    os.makedirs(seeds, exist_ok=True)
    seqb = build("seq")
    n = 0
    for d, _, fs in os.walk(os.path.join(ROOT, "corpus")):
        for f in sorted(fs):
            if f.endswith(".case"):
                n += 1
                subprocess.run([seqb, "encode", os.path.join(d, f), os.path.join(seeds, "s%03d" % n)], capture_output=True)
    info["seed_corpus_files"] = len(os.listdir(seeds))

    def one(j):
        cdir = os.path.join(work, "fz-corpus-%d" % j)
        adir = os.path.join(work, "fz-art-%d/" % j)
        os.makedirs(cdir, exist_ok=True)
        os.makedirs(adir, exist_ok=True)
        e = dict(env)
        e["VERIF_FUZZ_STATS"] = os.path.join(work, "fz-stats-%d.txt" % j)
        fk = cfg.get("fuzz_kinds") or list(range(10))
        e["VERIF_FUZZ_KIND"] = str(fk[j % len(fk)])
        cmd = [binp, cdir] + ([seeds] if (j % 2 == 1 and os.listdir(seeds)) else []) + [
            "-max_total_time=%d" % secs, "-seed=%d" % (seed * 131 + j + 1), "-max_len=512", "-len_control=20",
            "-artifact_prefix=" + adir, "-print_final_stats=1", "-timeout=20", "-rss_limit_mb=3000", "-verbosity=0"]
        p = subprocess.run(cmd, capture_output=True, text=True, env=e, timeout=secs + 300)
        return (j, p.returncode, p.stderr[-6000:], adir)

    with cf.ThreadPoolExecutor(NCPU) as ex:
        res = list(ex.map(one, range(jobs)))
    seqbin = build("seq")
    for (j, rc, err, adir) in res:
        m = re.search(r"stat::number_of_executed_units:\s+(\d+)", err)
        if m:
            info["execs"] += int(m.group(1))
        st = parse_stats(os.path.join(work, "fz-stats-%d.txt" % j))
        if st:
            info["nontrivial"] += st["nontrivial"]
            agg["hashes"] |= st["hashes"]
            agg["generated"] += st["generated"]
            agg["evaluations"] += st["evaluations"]
            for d in ("labels", "cases_with", "foreign"):
                for k, v in st[d].items():
                    agg[d][k] = agg[d].get(k, 0) + v
        arts = [f for f in os.listdir(adir) if f.startswith("crash-") or f.startswith("leak-")]
        for a in arts[:2]:
            fk = cfg.get("fuzz_kinds") or list(range(10))
            kind = str(fk[j % len(fk)])
            dec = subprocess.run([seqbin, "decode", os.path.join(adir, a), kind], capture_output=True, text=True)
            src = os.path.join(adir, a + ".case")
            with open(src, "w") as fh:
                fh.write(dec.stdout)
            text = open(src).read()
            r0 = run_replay(seqbin, prop, mode, src)
            name = "%s-fuzz-seed%d-j%d.case" % (prop, seed, j)
            path = os.path.join(repdir, name)
            if r0["verdict"] == 1:
                def same(r, pred=r0["pred"]):
                    return r["verdict"] == 1 and r["pred"] == pred
                mtext = minimize(seqbin, prop, mode, text, same, work, budget_s=60)
                with open(path, "w") as fh:
                    fh.write("# property %s mode %s (found by libFuzzer)\n# %s: %s\n%s" % (prop, mode, r0["pred"], r0["msg"], mtext))
                if not match_known(prop, r0["pred"], text):
                    violations.append((path, "%s: %s" % (r0["pred"], r0["msg"])))
            elif r0["crash"] and prop == "C08":
                sig = crash_signature(r0["err"])

                def same(r, sig=sig):
                    return r["crash"] and crash_signature(r["err"]).split(":")[0:2] == sig.split(":")[0:2]
                mtext = minimize(seqbin, prop, mode, text, same, work, budget_s=60)
                with open(path, "w") as fh:
                    fh.write("# property C08 mode %s (found by libFuzzer)\n# %s\n%s" % (mode, sig, mtext))
                violations.append((path, sig))
            elif r0["crash"]:
                agg["foreign"]["C08"] = agg["foreign"].get("C08", 0) + 1
            else:
                notes.append("libFuzzer artifact of job %d does not reproduce in the replay binary (verdict %s) - not counted" % (j, r0["verdict"]))
    return info


def write_evidence(prop, tier, seed, cfg, agg, samples, foreign_samples, violations, known_lines, notes, corpus_runs, wall, fuzz_info, extra=None):
    evdir = os.environ.get("VERIF_EVIDENCE_DIR") or os.path.join(ROOT, "evidence")
    os.makedirs(evdir, exist_ok=True)
    gen = max(1, agg.get("generated", 0))
    cov = {
        "evaluations": int(agg.get("evaluations", 0) + corpus_runs),
        "distinct_nontrivial": len(agg.get("hashes", ())),
        "rule": cfg["rule"],
        "samples": samples[:5] if samples else ["(no non-trivial sample captured)"],
        "cases_generated": agg.get("generated", 0),
        "nontrivial_cases": agg.get("nontrivial", 0),
        "corpus_replays": corpus_runs,
        "labels_total": dict(sorted(agg.get("labels", {}).items())),
        "fraction_of_cases_with_label": {k: round(v / gen, 4) for k, v in sorted(agg.get("cases_with", {}).items())},
        "per_container_cases_nontrivial": agg.get("kinds", {}),
        "foreign_failures": agg.get("foreign", {}),
        "foreign_samples": foreign_samples[:2],
        "worker_crashes": agg.get("crashes", 0),
        "worker_timeouts": agg.get("timeouts", 0),
        "known_findings_emitted": known_lines,
        "notes": notes,
        "engine": cfg.get("engine", "E1 seq (g++ ASan+UBSan+_GLIBCXX_DEBUG), rapidcheck Gen<Case>"),
        "mode": cfg.get("mode"),
        "exhaustive": False,
    }
    if fuzz_info:
        cov["libfuzzer"] = fuzz_info
    if extra:
        cov.update(extra)
    ev = {
        "property_id": prop,
        "tier": tier,
        "seed": int(seed),
        "level": "exploration",
        "coverage": cov,
        "assumptions": cfg.get("assumptions", []) + [
            "steady_clock::now() and std::random_device are replaced at link time by harness-owned values",
            "bounded exploration: capacity <= 33 (mostly <= 8), universe <= capacity+3 keys, histories <= max_size operations",
        ],
        "wall_s": round(wall, 2),
        "violations": len(violations),
    }
    with open(os.path.join(evdir, prop + ".json"), "w") as fh:
        json.dump(ev, fh, indent=1, sort_keys=False)
        fh.write("\n")


# --------------------------------------------------------------------------------------------------
def cmd_check(prop, tier):
    seed = int(os.environ.get("VERIF_SEED", "1") or "1")
    cfg = PROPS[prop]
    eng = cfg.get("driver", "seq")
    if eng == "seq":
        return seq_check(prop, tier, seed, cfg)
    if eng == "race":
        import race_driver
        return race_driver.check(sys.modules[__name__], prop, tier, seed, cfg)
    if eng == "sched":
        import sched_driver
        return sched_driver.check(sys.modules[__name__], prop, tier, seed, cfg)
    raise SystemExit("no driver for " + prop)


def cmd_replay(prop, path):
    cfg = PROPS[prop]
    eng = cfg.get("driver", "seq")
    if eng == "seq":
        binp = build(cfg.get("engine_bin", "seq"))
        text = open(path).read()
        mode = cfg["mode"]
        m = re.search(r"^# (?:property \S+ )?mode (\S+)", text, re.M)
        if m:
            mode = m.group(1)
        if mode == "stats-rr-mass":
            binp = build("plain")
        r = run_replay(binp, prop, mode, path, strict_f8="# known-finding" in text)
        sys.stdout.write(r["out"])
        if r["crash"]:
            log("CRASH " + crash_signature(r["err"]))
            log(r["err"][-3000:])
            return 1
        return 1 if r["verdict"] == 1 else 0
    if eng == "race":
        import race_driver
        return race_driver.replay(sys.modules[__name__], prop, path, cfg)
    if eng == "sched":
        import sched_driver
        return sched_driver.replay(sys.modules[__name__], prop, path, cfg)
    return 2


def main():
    if len(sys.argv) < 2:
        print(__doc__)
        return 2
    cmd = sys.argv[1]
    if cmd == "setup":
        for e in ("seq", "fuzz", "race", "sched", "plain", "schedtsan"):
            build(e)
        return 0
    if cmd == "check":
        prop = sys.argv[2]
        tier = "quick"
        if "--tier" in sys.argv:
            tier = sys.argv[sys.argv.index("--tier") + 1]
        tier = os.environ.get("VERIF_TIER_OVERRIDE", tier)
        return cmd_check(prop, tier)
    if cmd == "replay":
        return cmd_replay(sys.argv[2], sys.argv[3])
    if cmd == "minimize":
        prop, path = sys.argv[2], sys.argv[3]
        cfg = PROPS[prop]
        binp = build("seq")
        text = open(path).read()
        r0 = run_replay(binp, prop, cfg["mode"], path)
        if r0["crash"]:
            sig = crash_signature(r0["err"])
            same = lambda r: r["crash"] and crash_signature(r["err"]).split(":")[0:2] == sig.split(":")[0:2]  # noqa: E731
        elif r0["verdict"] == 1:
            same = lambda r: r["verdict"] == 1 and r["pred"] == r0["pred"]  # noqa: E731
        else:
            log("case does not fail")
            return 0
        os.makedirs(os.path.join(BUILD_ROOT, "work"), exist_ok=True)
        sys.stdout.write(minimize(binp, prop, cfg["mode"], text, same, os.path.join(BUILD_ROOT, "work")))
        return 0
    print(__doc__)
    return 2


if __name__ == "__main__":
    sys.exit(main())
